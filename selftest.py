#!/usr/bin/env python3
"""Sensitivity self-test: apply a property-breaking change to /repo, run the
quick checks, require the expected verdicts and a reproducing replay file, undo."""
import json, os, subprocess, sys, time, glob, re, shutil
V='/verif'; R='/repo'
ALL=['C01','C02','C05','C07','C10','C11','C12','C14']

def sh(cmd, **k):
    return subprocess.run(cmd, shell=True, capture_output=True, text=True, **k)

def clean():
    sh(f'git -C {R} checkout -- . && git -C {R} clean -fdq -- src derive test_suite')

def run_check(prop, env):
    r = subprocess.run([f'{V}/check', prop, 'quick'], capture_output=True, text=True, env=env, cwd=V)
    m = re.search(r'^VIOLATION property=(\S+) replay=(\S+)', r.stdout, re.M)
    clause = re.search(r'^violated clause: (.*)$', r.stdout, re.M)
    return r.returncode, (m.group(2) if m else None), (clause.group(1)[:300] if clause else ''), r

def main():
    kind = sys.argv[1]; names = sys.argv[2:]
    if sh(f'git -C {R} status --porcelain --untracked-files=no').stdout.strip():
        print('refusing: /repo has local changes'); sys.exit(2)
    scratch = f'{V}/sim/target/scratch/selftest'
    shutil.rmtree(scratch, ignore_errors=True); os.makedirs(scratch+'/replays'); os.makedirs(scratch+'/evidence')
    env = dict(os.environ, VERIF_REPLAY_DIR=scratch+'/replays', VERIF_EVIDENCE_DIR=scratch+'/evidence', VERIF_WATCHDOG_S=os.environ.get('VERIF_WATCHDOG_S','30'))
    if kind == 'mutants':
        idx = json.load(open(f'{V}/mutants/index.json'))
        items = [(n, f'{V}/mutants/{n}.patch', idx[n]['breaks'], idx[n]['green']) for n in idx if not names or n in names]
    else:
        items = []
        for d in sorted(glob.glob(f'{V}/seeded/*/')):
            n = os.path.basename(d.rstrip('/'))
            if names and n not in names: continue
            meta = json.load(open(d+'meta.json'))
            items.append((n, d+'patch.diff', meta['breaks'], meta.get('green', [])))
    results = {}; bad = 0
    try:
        for name, patch, breaks, green in items:
            clean()
            a = sh(f'git -C {R} apply {patch}')
            if a.returncode != 0:
                print(f'{name}: PATCH DOES NOT APPLY: {a.stderr.strip()[:200]}'); bad += 1; results[name] = {'error': 'patch does not apply'}; continue
            res = {'detected_by': {}, 'missed_by': [], 'false_alarm': [], 'green_ok': []}
            to_run = breaks + [g for g in green if g not in breaks]
            if os.environ.get('SELFTEST_ALL'):
                to_run = breaks + [p for p in ALL if p not in breaks]
            replays = {}
            for p in to_run:
                t = time.time(); code, rp, clause, r = run_check(p, env); dt = time.time() - t
                if code == 2:
                    print(f'{name}: {p}: HARNESS ERROR\n{r.stderr[-600:]}'); res.setdefault('harness_error', []).append(p); bad += 1; continue
                if p in breaks:
                    if code == 1 and rp:
                        rr = subprocess.run([f'{V}/check', 'replay', rp], capture_output=True, text=True, env=env, cwd=V)
                        res['detected_by'][p] = {'clause': clause, 'replay_reproduces': rr.returncode == 1, 'secs': round(dt, 1), 'replay_bytes': os.path.getsize(rp)}
                        replays[p] = rp
                        if rr.returncode != 1: bad += 1
                    else:
                        res['missed_by'].append(p); bad += 1
                else:
                    if code == 1:
                        res['false_alarm'].append({'property': p, 'clause': clause})
                        # not necessarily wrong: a change may break more than its author listed; reported for triage
                    else:
                        res['green_ok'].append(p)
            clean()
            # on the unchanged tree the replay files must pass
            for p, rp in replays.items():
                rr = subprocess.run([f'{V}/check', 'replay', rp], capture_output=True, text=True, env=env, cwd=V)
                res['detected_by'][p]['replay_passes_on_unchanged_tree'] = rr.returncode == 0
                if rr.returncode != 0: bad += 1
            results[name] = res
            print(f"{name}: detected by {sorted(res['detected_by'])} missed by {res['missed_by']} also-tripped {[f['property'] for f in res['false_alarm']]} green {res['green_ok']}", flush=True)
            for p, d in res['detected_by'].items():
                print(f"    {p}: {d['clause'][:160]} (replay reproduces: {d['replay_reproduces']}, {d['replay_bytes']} bytes)")
    finally:
        clean()
        sh(f'cd {V}/sim && cargo build --release --offline')
    out = f'{V}/{kind}/results.json'
    old = json.load(open(out)) if os.path.exists(out) and names else {}
    old.update(results)
    json.dump(old, open(out, 'w'), indent=1, sort_keys=True)
    print(f'{len(items)} changes, {bad} problems; results in {out}')
    sys.exit(1 if bad else 0)
main()
