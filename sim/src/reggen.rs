//! Scenario data and seeded generation for `regsim`: swarm configuration,
//! type graph, client scripts, the simulated network that turns scripts into
//! delivery sequences (reordering, duplication, delay), and the consumer chain.

use crate::corpus::CORPUS;
use crate::pool::{self, StrCfg, StrId};
use crate::rng::Rng;
use crate::universe::{
    DefSpec, FieldSpec, NodeSpec, TyRef, VariantSpec, ALL_W, K, PHANTOM_W, SEQ_W, TRANSPARENT_W, W,
};
use serde::{Deserialize, Serialize};

#[derive(Clone, Debug, Hash, Serialize, Deserialize)]
pub struct RegCfg {
    /// nodes that carry generated structure and may be roots / edge targets
    pub active: u8,
    pub max_members: u8,
    /// permille: an edge goes back to a node with index <= the source (cycles)
    pub cycle_bias: u32,
    /// permille: a reference uses a transparent wrapper
    pub alias_bias: u32,
    /// permille: a reference uses any (non-bare) wrapper
    pub wrap_bias: u32,
    /// permille: a reference is a PhantomData
    pub phantom_bias: u32,
    /// permille: a reference goes to the fixed corpus
    pub corpus_bias: u32,
    /// permille: a node has type parameters
    pub param_bias: u32,
    pub docs_bias: u32,
    pub strs: StrCfg,
    pub clients: u8,
    pub script_len: u8,
    /// permille: a message is delivered twice
    pub dup_rate: u32,
    /// permille: a request repeats an earlier root of any client
    pub repeat_bias: u32,
    /// maximal network delay in ticks
    pub delay_spread: u32,
    /// permille: a message is delayed far behind everything else
    pub straggler: u32,
    /// permille: a request is an `IntoPortable` item rather than a root
    pub item_bias: u32,
    pub many_bias: u32,
    pub chain_len: u8,
    /// permille of ids a retain filter accepts
    pub keep_density: u32,
    pub corner: Corner,
}

#[derive(Clone, Copy, Debug, Hash, PartialEq, Eq, Serialize, Deserialize)]
pub enum Corner {
    None,
    SelfLoop,
    HugeTuple,
    Empty,
    AllSame,
    AliasStorm,
    /// one long chain through all nodes, each link through a wrapper that
    /// adds registry entries of its own: nesting ~100 deep under one root
    DeepChain,
    /// hundreds of roots: registries with more than 256 and more than 1000
    /// entries (ids in the two-byte compact class, tables past size thresholds)
    Big,
}

#[derive(Clone, PartialEq, Eq, Debug, Hash, Serialize, Deserialize)]
pub enum ItemSpec {
    Field(FieldSpec),
    Variant(VariantSpec),
    Param(StrId, Option<TyRef>),
    /// `meta.type_info().into_portable(..)`: registers the sub-types only
    TypeOf(TyRef),
    Def(DefSpec),
    /// several items through `Registry::map_into_portable`
    Fields(Vec<FieldSpec>),
    /// a frame-metadata-like user struct implementing `IntoPortable`
    Pallet {
        name: StrId,
        calls: Option<TyRef>,
        event: Option<TyRef>,
        storage: Vec<FieldSpec>,
        constants: Vec<(StrId, TyRef)>,
    },
}

impl ItemSpec {
    pub fn refs(&self) -> Vec<TyRef> {
        let mut out = Vec::new();
        match self {
            ItemSpec::Field(f) => out.push(f.ty),
            ItemSpec::Variant(v) => out.extend(v.fields.iter().map(|f| f.ty)),
            ItemSpec::Param(_, t) => out.extend(t.iter().copied()),
            ItemSpec::TypeOf(t) => out.push(*t),
            ItemSpec::Def(d) => crate::universe::def_refs(d, &mut out),
            ItemSpec::Fields(fs) => out.extend(fs.iter().map(|f| f.ty)),
            ItemSpec::Pallet {
                calls,
                event,
                storage,
                constants,
                ..
            } => {
                out.extend(calls.iter().copied());
                out.extend(event.iter().copied());
                out.extend(storage.iter().map(|f| f.ty));
                out.extend(constants.iter().map(|c| c.1));
            }
        }
        out
    }
}

#[derive(Clone, PartialEq, Eq, Debug, Hash, Serialize, Deserialize)]
pub enum Req {
    Register(TyRef),
    RegisterMany(Vec<TyRef>),
    Item(ItemSpec),
}

impl Req {
    pub fn refs(&self) -> Vec<TyRef> {
        match self {
            Req::Register(t) => vec![*t],
            Req::RegisterMany(ts) => ts.clone(),
            Req::Item(i) => i.refs(),
        }
    }
}

#[derive(Clone, PartialEq, Eq, Debug, Hash, Serialize, Deserialize)]
pub struct Delivery {
    pub client: u8,
    /// message number (program order across all clients)
    pub msg: u32,
    /// this is the second delivery of `msg`
    pub dup: bool,
    pub req: Req,
}

#[derive(Clone, PartialEq, Eq, Debug, Hash, Serialize, Deserialize)]
pub enum Keep {
    All,
    Nothing,
    /// one id, taken modulo the registry length
    One(u32),
    Last,
    /// bitset over ids (ids beyond the set are rejected)
    Bits(Vec<u64>),
    /// the ids below `n % (len + 1)`: a prefix-shaped keep set
    Prefix(u32),
}

impl Keep {
    pub fn accepts(&self, id: u32, len: usize) -> bool {
        match self {
            Keep::All => true,
            Keep::Nothing => false,
            Keep::One(k) => len > 0 && id == k % len as u32,
            Keep::Last => id as usize + 1 == len,
            Keep::Prefix(n) => (id as u64) < (*n as u64 % (len as u64 + 1)),
            Keep::Bits(b) => {
                let w = (id / 64) as usize;
                w < b.len() && (b[w] >> (id % 64)) & 1 == 1
            }
        }
    }
}

#[derive(Clone, PartialEq, Eq, Debug, Hash, Serialize, Deserialize)]
pub enum ChainStep {
    Retain(Keep),
    ScaleRoundTrip,
    JsonRoundTrip,
    BuilderRebuild,
}

#[derive(Clone, Debug, Hash, Serialize, Deserialize)]
pub struct RegScenario {
    pub cfg: RegCfg,
    /// logical -> concrete node
    pub perm: Vec<u8>,
    pub nodes: Vec<NodeSpec>,
    pub owner: Vec<Delivery>,
    pub replica: Vec<Delivery>,
    /// the replay-of-a-prefix check cuts the owner history here
    pub prefix_at: u32,
    pub chain: Vec<ChainStep>,
    /// fault-injecting configuration: logical nodes whose `type_info()`
    /// unwinds once, the first time the registry evaluates it; the harness
    /// catches the unwind and the history goes on (crash and retry inside a
    /// registration).  Empty in the fault-free configuration.
    #[serde(default)]
    pub unwind_nodes: Vec<u8>,
}

// ---------------------------------------------------------------------------

pub fn gen_cfg(rng: &mut Rng) -> RegCfg {
    let corner = match rng.below(100) {
        0 => Corner::SelfLoop,
        1 => Corner::HugeTuple,
        2 => Corner::Empty,
        3 => Corner::AllSame,
        4..=7 => Corner::AliasStorm,
        8 | 9 => Corner::DeepChain,
        10 if rng.permille(500) => Corner::Big,
        _ => Corner::None,
    };
    let active = match rng.below(10) {
        0 => 1,
        1..=4 => rng.range(2, 5) as u8,
        5..=8 => rng.range(4, 12) as u8,
        _ => rng.range(8, K as u64) as u8,
    };
    let pm = |rng: &mut Rng, choices: &[u32]| *rng.pick(choices);
    RegCfg {
        active,
        max_members: *rng.pick(&[1u8, 2, 3, 3, 4, 6, 9]),
        cycle_bias: pm(rng, &[0, 100, 300, 500, 800]),
        alias_bias: pm(rng, &[0, 100, 300, 600]),
        wrap_bias: pm(rng, &[0, 100, 300, 600]),
        phantom_bias: pm(rng, &[0, 0, 30, 150]),
        corpus_bias: pm(rng, &[0, 50, 200, 500]),
        param_bias: pm(rng, &[0, 200, 500, 900]),
        docs_bias: pm(rng, &[0, 200, 700]),
        strs: StrCfg {
            odd: pm(rng, &[0, 0, 50, 300]),
            long: pm(rng, &[0, 0, 0, 5, 40]),
            empty: pm(rng, &[0, 20, 200]),
        },
        clients: rng.range(1, 5) as u8,
        script_len: *rng.pick(&[1u8, 2, 3, 5, 8, 12, 20, 40]),
        dup_rate: pm(rng, &[0, 50, 200, 500]),
        repeat_bias: pm(rng, &[0, 100, 300, 600]),
        delay_spread: pm(rng, &[0, 1, 4, 16, 100]),
        straggler: pm(rng, &[0, 0, 50, 200]),
        item_bias: pm(rng, &[0, 100, 300, 600]),
        many_bias: pm(rng, &[0, 100, 300]),
        chain_len: rng.range(0, 6) as u8,
        keep_density: pm(rng, &[0, 20, 100, 300, 600, 1000]),
        corner,
    }
}

pub fn gen_perm(rng: &mut Rng) -> Vec<u8> {
    let mut p: Vec<u8> = (0..K as u8).collect();
    rng.shuffle(&mut p);
    p
}

fn corpus_ref(rng: &mut Rng) -> TyRef {
    // the last entries nest hundreds of levels deep: rare
    let light = crate::corpus::heavy_from();
    if rng.permille(6) {
        return TyRef::corpus(light + rng.usize_below(CORPUS.len() - light));
    }
    TyRef::corpus(rng.usize_below(light))
}

/// A reference from node `from` (or from a client when `from == None`).
pub fn gen_ref(rng: &mut Rng, c: &RegCfg, from: Option<u8>) -> TyRef {
    if rng.permille(c.corpus_bias) {
        return corpus_ref(rng);
    }
    let m = c.active.max(1) as u64;
    let n = match from {
        Some(f) if rng.permille(c.cycle_bias) => rng.below((f as u64).min(m - 1) + 1) as u8,
        _ => rng.below(m) as u8,
    };
    let w = if rng.permille(c.phantom_bias) {
        *rng.pick(PHANTOM_W)
    } else if rng.permille(c.alias_bias) {
        if rng.permille(700) {
            *rng.pick(TRANSPARENT_W)
        } else {
            *rng.pick(SEQ_W)
        }
    } else if rng.permille(c.wrap_bias) {
        *rng.pick(ALL_W)
    } else {
        W::Bare
    };
    TyRef { w, n }
}

fn gen_docs(rng: &mut Rng, c: &RegCfg) -> Vec<StrId> {
    if !rng.permille(c.docs_bias) {
        return vec![];
    }
    (0..rng.range(1, 3)).map(|_| pool::doc(rng, &c.strs)).collect()
}

pub fn gen_field(rng: &mut Rng, c: &RegCfg, from: Option<u8>, named: bool) -> FieldSpec {
    FieldSpec {
        name: if named { Some(pool::ident(rng, &c.strs)) } else { None },
        ty: gen_ref(rng, c, from),
        type_name: if rng.permille(600) { Some(pool::type_name(rng, &c.strs)) } else { None },
        docs: gen_docs(rng, c),
    }
}

fn member_count(rng: &mut Rng, c: &RegCfg) -> usize {
    if rng.permille(15) {
        return rng.range(10, 24) as usize;
    }
    rng.range(0, c.max_members as u64) as usize
}

fn gen_fields(rng: &mut Rng, c: &RegCfg, from: Option<u8>) -> Vec<FieldSpec> {
    let named = rng.permille(600);
    // rarely mix named and unnamed: a hand-written impl can
    let mixed = rng.permille(20);
    (0..member_count(rng, c))
        .map(|_| {
            let n = if mixed { rng.permille(500) } else { named };
            gen_field(rng, c, from, n)
        })
        .collect()
}

pub fn gen_variant(rng: &mut Rng, c: &RegCfg, from: Option<u8>, index: u8) -> VariantSpec {
    VariantSpec {
        name: pool::ident(rng, &c.strs),
        fields: if rng.permille(400) { vec![] } else { gen_fields(rng, c, from) },
        index,
        docs: gen_docs(rng, c),
    }
}

pub fn gen_def(rng: &mut Rng, c: &RegCfg, from: Option<u8>) -> DefSpec {
    match rng.weighted(&[35, 25, 6, 6, 10, 4, 3, 11]) {
        0 => DefSpec::Composite(gen_fields(rng, c, from)),
        1 => {
            let n = member_count(rng, c);
            let style = rng.below(4);
            let mut idx: Vec<u8> = (0..=255u8).collect();
            rng.shuffle(&mut idx);
            DefSpec::Variant(
                (0..n)
                    .map(|i| {
                        let index = match style {
                            0 => i as u8,
                            1 => idx[i % 256],
                            2 => (255 - i % 256) as u8,
                            _ => rng.below(4) as u8, // duplicates: ill-formed but registrable
                        };
                        gen_variant(rng, c, from, index)
                    })
                    .collect(),
            )
        }
        2 => DefSpec::Sequence(gen_ref(rng, c, from)),
        3 => DefSpec::Array(
            *rng.pick(&[0u32, 1, 2, 32, 63, 64, 16383, 16384, 65536, 1 << 30, u32::MAX]),
            gen_ref(rng, c, from),
        ),
        4 => {
            let n = if rng.permille(50) { rng.range(13, 30) } else { rng.range(0, 12) };
            DefSpec::Tuple((0..n).map(|_| gen_ref(rng, c, from)).collect())
        }
        5 => DefSpec::Compact(gen_ref(rng, c, from)),
        6 => DefSpec::BitSeq(gen_ref(rng, c, from), gen_ref(rng, c, from)),
        _ => DefSpec::Primitive(rng.below(15) as u8),
    }
}

pub fn gen_node(rng: &mut Rng, c: &RegCfg, idx: u8) -> NodeSpec {
    if idx >= c.active {
        // passive node: a leaf (still a distinct nominal type)
        return NodeSpec {
            path: if rng.permille(500) { vec![pool::ident(rng, &c.strs)] } else { vec![] },
            params: vec![],
            docs: vec![],
            def: if rng.permille(700) {
                DefSpec::Primitive(rng.below(15) as u8)
            } else {
                DefSpec::Composite(vec![])
            },
        };
    }
    let from = Some(idx);
    let path = match rng.below(10) {
        0 => vec![],
        1..=3 => vec![pool::ident(rng, &c.strs)],
        _ => (0..rng.range(2, 4)).map(|_| pool::ident(rng, &c.strs)).collect(),
    };
    let params = if rng.permille(c.param_bias) {
        (0..rng.range(1, 3))
            .map(|_| {
                let name = pool::ident(rng, &c.strs);
                let ty = if rng.permille(250) { None } else { Some(gen_ref(rng, c, from)) };
                (name, ty)
            })
            .collect()
    } else {
        vec![]
    };
    NodeSpec {
        path,
        params,
        docs: gen_docs(rng, c),
        def: gen_def(rng, c, from),
    }
}

fn gen_item(rng: &mut Rng, c: &RegCfg) -> ItemSpec {
    match rng.below(8) {
        0 => {
            let named = rng.permille(500);
            ItemSpec::Field(gen_field(rng, c, None, named))
        }
        1 => {
            let idx = rng.below(256) as u8;
            ItemSpec::Variant(gen_variant(rng, c, None, idx))
        }
        2 => ItemSpec::Param(
            pool::ident(rng, &c.strs),
            if rng.permille(200) { None } else { Some(gen_ref(rng, c, None)) },
        ),
        3 => ItemSpec::TypeOf(gen_ref(rng, c, None)),
        4 => ItemSpec::Def(gen_def(rng, c, None)),
        5 => ItemSpec::Fields(gen_fields(rng, c, None)),
        _ => ItemSpec::Pallet {
            name: pool::ident(rng, &c.strs),
            calls: if rng.permille(700) { Some(gen_ref(rng, c, None)) } else { None },
            event: if rng.permille(500) { Some(gen_ref(rng, c, None)) } else { None },
            storage: gen_fields(rng, c, None),
            constants: (0..rng.below(3))
                .map(|_| (pool::ident(rng, &c.strs), gen_ref(rng, c, None)))
                .collect(),
        },
    }
}

fn gen_req(rng: &mut Rng, c: &RegCfg, earlier: &[TyRef]) -> Req {
    let root = |rng: &mut Rng| -> TyRef {
        if !earlier.is_empty() && rng.permille(c.repeat_bias) {
            // the same identity again, possibly through another alias
            let t = *rng.pick(earlier);
            if t.w != W::Corpus && rng.permille(500) {
                let group: &[W] = if TRANSPARENT_W.contains(&t.w) || t.w == W::Bare {
                    TRANSPARENT_W
                } else if SEQ_W.contains(&t.w) {
                    SEQ_W
                } else if PHANTOM_W.contains(&t.w) {
                    PHANTOM_W
                } else {
                    return t;
                };
                if rng.permille(200) && group.as_ptr() == TRANSPARENT_W.as_ptr() {
                    return TyRef::bare(t.n);
                }
                return TyRef { w: *rng.pick(group), n: t.n };
            }
            return t;
        }
        gen_ref(rng, c, None)
    };
    if rng.permille(c.item_bias) {
        return Req::Item(gen_item(rng, c));
    }
    if rng.permille(c.many_bias) {
        let n = rng.range(0, 5);
        let mut v: Vec<TyRef> = (0..n).map(|_| root(rng)).collect();
        if v.len() >= 2 && rng.permille(400) {
            let k = rng.usize_below(v.len());
            v.push(v[k]); // the same type twice in one call
        }
        return Req::RegisterMany(v);
    }
    Req::Register(root(rng))
}

/// The simulated network: every message gets a delivery time; duplicates are
/// delivered a second time later; the delivery order is the order of
/// (time, sequence number).
pub fn network(rng: &mut Rng, c: &RegCfg, msgs: &[(u8, Req)]) -> Vec<Delivery> {
    let mut q: Vec<(u64, u64, Delivery)> = Vec::new();
    let mut seq = 0u64;
    let mut clock = vec![0u64; 256];
    for (i, (client, req)) in msgs.iter().enumerate() {
        let cl = *client as usize;
        clock[cl] += 1 + rng.below(3);
        let mut delay = if c.delay_spread == 0 { 0 } else { rng.below(c.delay_spread as u64 + 1) };
        if rng.permille(c.straggler) {
            delay += 10_000;
        }
        let at = clock[cl] + delay;
        q.push((
            at,
            seq,
            Delivery { client: *client, msg: i as u32, dup: false, req: req.clone() },
        ));
        seq += 1;
        if rng.permille(c.dup_rate) {
            let again = at + 1 + rng.below(c.delay_spread as u64 * 2 + 20);
            q.push((
                again,
                seq,
                Delivery { client: *client, msg: i as u32, dup: true, req: req.clone() },
            ));
            seq += 1;
        }
    }
    q.sort_by_key(|x| (x.0, x.1));
    q.into_iter().map(|x| x.2).collect()
}

fn gen_keep(rng: &mut Rng, c: &RegCfg) -> Keep {
    match rng.below(12) {
        0 => Keep::All,
        1 => Keep::Nothing,
        2 | 3 => Keep::One(rng.next_u64() as u32),
        4 => Keep::Last,
        5 => Keep::Prefix(rng.next_u64() as u32),
        _ => {
            let mut bits = vec![0u64; 8];
            for id in 0..512 {
                if rng.permille(c.keep_density) {
                    bits[id / 64] |= 1 << (id % 64);
                }
            }
            Keep::Bits(bits)
        }
    }
}

pub fn generate(rng: &mut Rng) -> RegScenario {
    let mut c = gen_cfg(rng);
    match c.corner {
        Corner::SelfLoop => {
            c.active = 1;
            c.cycle_bias = 1000;
            c.corpus_bias = 0;
        }
        Corner::Empty => c.script_len = 0,
        Corner::DeepChain => {
            c.active = K as u8;
            c.cycle_bias = c.cycle_bias.min(300);
        }
        Corner::Big => c.active = K as u8,
        Corner::AliasStorm => {
            c.alias_bias = 900;
            c.repeat_bias = 700;
            c.dup_rate = 300;
            c.corpus_bias = c.corpus_bias.min(100);
            c.item_bias = c.item_bias.min(100);
        }
        _ => {}
    }
    let perm = gen_perm(rng);
    let mut nodes: Vec<NodeSpec> = (0..K as u8).map(|i| gen_node(rng, &c, i)).collect();
    if c.corner == Corner::DeepChain {
        let links = [W::OptionOption, W::VecVec, W::BoxOption, W::Option, W::Vec, W::OptionRc, W::VecBox, W::Arr1, W::Tup1, W::BTreeSet, W::Cow, W::Range, W::DGen, W::DTree];
        for i in 0..K - 1 {
            let w = *rng.pick(&links);
            let f = FieldSpec { name: Some(pool::ident(rng, &c.strs)), ty: TyRef { w, n: i as u8 + 1 }, type_name: None, docs: vec![] };
            match &mut nodes[i].def {
                DefSpec::Composite(fs) => fs.insert(0, f),
                d => *d = DefSpec::Composite(vec![f]),
            }
        }
    }
    if c.corner == Corner::HugeTuple {
        let n = rng.range(20, 60);
        nodes[0].def = DefSpec::Tuple((0..n).map(|_| gen_ref(rng, &c, Some(0))).collect());
    }
    // client scripts, in program order; `earlier` lets requests repeat roots
    let mut msgs: Vec<(u8, Req)> = Vec::new();
    let mut earlier: Vec<TyRef> = Vec::new();
    let total = if c.script_len == 0 { 0 } else { rng.range(1, c.script_len as u64) };
    let same = if c.corner == Corner::AllSame { Some(gen_req(rng, &c, &[])) } else { None };
    for _ in 0..total {
        let client = rng.below(c.clients as u64) as u8;
        let req = match &same {
            Some(r) => r.clone(),
            None => gen_req(rng, &c, &earlier),
        };
        earlier.extend(req.refs());
        msgs.push((client, req));
    }
    if c.corner == Corner::DeepChain {
        msgs.insert(0, (0, Req::Register(TyRef::bare(0))));
    }
    if c.corner == Corner::Big {
        let batches = rng.range(10, 60);
        for _ in 0..batches {
            let n = rng.range(25, 40);
            let refs: Vec<TyRef> = (0..n)
                .map(|_| TyRef { w: *rng.pick(ALL_W), n: rng.below(K as u64) as u8 })
                .collect();
            let at = rng.usize_below(msgs.len() + 1);
            msgs.insert(at, (rng.below(c.clients as u64) as u8, Req::RegisterMany(refs)));
        }
    }
    let owner = network(rng, &c, &msgs);
    // the replica receives the same multiset of messages (duplicates
    // included) through an independently drawn order
    let mut replica = owner.clone();
    match rng.below(4) {
        0 => replica.reverse(),
        1 => replica.sort_by_key(|d| (d.msg, d.dup)), // program order
        _ => rng.shuffle(&mut replica),
    }
    let prefix_at = if owner.is_empty() { 0 } else { rng.below(owner.len() as u64 + 1) as u32 };
    let chain = (0..c.chain_len)
        .map(|_| match rng.weighted(&[50, 20, 15, 15]) {
            0 => ChainStep::Retain(gen_keep(rng, &c)),
            1 => ChainStep::ScaleRoundTrip,
            2 => ChainStep::JsonRoundTrip,
            _ => ChainStep::BuilderRebuild,
        })
        .collect();
    // 15% of the runs are the fault-injecting configuration (used by C11 only)
    let unwind_nodes: Vec<u8> = if rng.permille(150) {
        (0..rng.range(1, 3)).map(|_| rng.below(c.active.max(1) as u64) as u8).collect()
    } else {
        vec![]
    };
    RegScenario { cfg: c, perm, nodes, owner, replica, prefix_at, chain, unwind_nodes }
}
