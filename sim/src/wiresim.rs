//! Engine 2: producer -> medium -> consumer.  Real `Encode` / `Decode` /
//! serde impls of `PortableRegistry` on both ends; in between, simulated
//! writers and readers (chunking, short reads, EINTR, unknown remaining
//! length, I/O errors at a byte offset) and a medium to which seeded fault
//! sequences are applied (truncation, bit flips, insertions, deletions,
//! duplicated / swapped ranges, dropped / duplicated / swapped frames, targeted
//! rewrites of length fields, ids, tags and option bytes).
//!
//! Fault-free and benign configurations decide C07; data-fault and
//! reader-fault configurations decide C14.

use crate::alloc;
use crate::core::{self, fail, probe, probe_max, probe_n, Check, Mask, Violation};
use crate::io::{ErrKind, IoScript, NoLenInput, SimRead, SimWrite};
use crate::layout::{self, FieldClass};
use crate::pool::StrCfg;
use crate::ptype::{PReg, PType};
use crate::rng::{hash_of, Fnv, Rng};
use crate::{reggen, regsim, tablesim};
use scale::{Decode, DecodeLimit, Encode, IoReader};
use scale_info::PortableRegistry;
use serde::{Deserialize, Serialize};
use std::collections::BTreeSet;

/// Allocation bound: peak <= ALLOC_C0 + ALLOC_C1 * len(medium).  See DESIGN §C14.
pub const ALLOC_C0: usize = 256 * 1024;
pub const ALLOC_C1: usize = 256;

#[derive(Clone, PartialEq, Eq, Debug, Hash, Serialize, Deserialize)]
pub enum Fault {
    Truncate(usize),
    FlipBit(usize, u8),
    SetByte(usize, u8),
    Insert(usize, Vec<u8>),
    Delete(usize, usize),
    DupRange(usize, usize),
    SwapRanges(usize, usize, usize),
    DropFrame(u8),
    DupFrame(u8),
    SwapFrames(u8, u8),
    /// targeted: replace `old_len` bytes at `at` (a field found by the aiming
    /// parser) by `new`
    Rewrite { at: usize, old_len: usize, new: Vec<u8>, class: FieldClass, how: String },
}

impl Fault {
    pub fn kind(&self) -> &'static str {
        match self {
            Fault::Truncate(_) => "truncate",
            Fault::FlipBit(..) => "flip_bit",
            Fault::SetByte(..) => "set_byte",
            Fault::Insert(..) => "insert",
            Fault::Delete(..) => "delete",
            Fault::DupRange(..) => "dup_range",
            Fault::SwapRanges(..) => "swap_ranges",
            Fault::DropFrame(_) => "drop_frame",
            Fault::DupFrame(_) => "dup_frame",
            Fault::SwapFrames(..) => "swap_frames",
            Fault::Rewrite { class, .. } => match class {
                FieldClass::VecLen => "rewrite.vec_len",
                FieldClass::StrLen => "rewrite.str_len",
                FieldClass::Id => "rewrite.id",
                FieldClass::DefTag => "rewrite.def_tag",
                FieldClass::PrimTag => "rewrite.prim_tag",
                FieldClass::OptionByte => "rewrite.option_byte",
                FieldClass::ArrayLen => "rewrite.array_len",
                FieldClass::VariantIndex => "rewrite.variant_index",
                FieldClass::StrByte => "rewrite.str_byte",
            },
        }
    }
    fn frame_level(&self) -> bool {
        matches!(self, Fault::DropFrame(_) | Fault::DupFrame(_) | Fault::SwapFrames(..))
    }
}

#[derive(Clone, PartialEq, Eq, Debug, Hash, Serialize, Deserialize)]
pub enum JVal {
    Null,
    Bool(bool),
    Int(i64),
    Big(u64),
    Float(u32),
    Str(String),
    Arr,
    Obj,
    Deep(u16),
}

#[derive(Clone, PartialEq, Eq, Debug, Hash, Serialize, Deserialize)]
pub enum JOp {
    /// remove the k-th child (object member or array element)
    DeleteChild(u16),
    AddKey(String, JVal),
    /// replace the node itself
    Replace(JVal),
    /// rename the key of the k-th member of an object
    RenameChild(u16, String),
    /// append a copy of the k-th element of an array
    DuplicateChild(u16),
}

/// A structural fault on the JSON value: walk `path` (each step picks a child
/// by index modulo the number of children, stopping early at a leaf), then
/// apply `op` to the node reached.
#[derive(Clone, PartialEq, Eq, Debug, Hash, Serialize, Deserialize)]
pub struct JFault {
    pub path: Vec<u16>,
    pub op: JOp,
}

#[derive(Clone, PartialEq, Eq, Debug, Hash, Serialize, Deserialize)]
pub enum ReaderSpec {
    Slice,
    Io(IoScript),
    IoErr(IoScript, usize, ErrKind),
    NoLen,
}

impl ReaderSpec {
    pub fn kind(&self) -> &'static str {
        match self {
            ReaderSpec::Slice => "slice",
            ReaderSpec::Io(_) => "io_reader",
            ReaderSpec::IoErr(..) => "io_reader_error",
            ReaderSpec::NoLen => "no_len_input",
        }
    }
}

#[derive(Clone, PartialEq, Eq, Debug, Hash, Serialize, Deserialize)]
pub enum Case {
    /// byte-level faults on the SCALE stream
    Scale { faults: Vec<Fault>, reader: ReaderSpec },
    /// byte-level faults on the JSON text of frame `frame`; read with
    /// `from_slice` or, when a script is given, `from_reader`
    JsonText { frame: u8, faults: Vec<Fault>, reader: Option<IoScript>, err: Option<(usize, ErrKind)> },
    /// structural faults on the JSON value of frame `frame`, read with `from_value`
    JsonValue { frame: u8, faults: Vec<JFault> },
    /// the JSON document of frame `frame` written in an unusual but legal (or
    /// nearly legal) way: 0 members in reverse key order, 1 first member of
    /// every object twice, 2 an unknown member in every object, 3 white space
    /// and line breaks between all tokens
    JsonStyled { frame: u8, style: u8 },
}

#[derive(Clone, Debug, Hash, Serialize, Deserialize)]
pub struct WireScenario {
    pub frames: Vec<PReg>,
    pub sentinel: Vec<u8>,
    pub writer: IoScript,
    /// readers of the fault-free / benign configuration
    pub readers: Vec<ReaderSpec>,
    pub cases: Vec<Case>,
    /// consumer step after decoding: one retain filter per frame (applied to
    /// frames that are well-formed registries)
    #[serde(default)]
    pub keeps: Vec<reggen::Keep>,
}

// ---------------------------------------------------------------------------
// generation
// ---------------------------------------------------------------------------

pub fn gen_script(rng: &mut Rng) -> IoScript {
    let style = rng.below(4);
    let n = rng.range(1, 6) as usize;
    IoScript {
        chunks: (0..n)
            .map(|_| match style {
                0 => 1,
                1 => rng.range(1, 4) as u16,
                2 => rng.range(1, 64) as u16,
                _ => *rng.pick(&[1u16, 7, 4096, u16::MAX]),
            })
            .collect(),
        eintr: (0..rng.range(1, 5)).map(|_| if rng.permille(250) { rng.range(1, 3) as u8 } else { 0 }).collect(),
    }
}

fn gen_direct(rng: &mut Rng, strs: &StrCfg, well_formed: bool) -> PReg {
    let n = match rng.below(40) {
        0 | 1 => 0,
        2 | 3 => rng.range(60, 70) as u32,
        4 | 5 => rng.range(100, 260) as u32,
        // more entries than one pre-allocation chunk of the codec holds
        // (16 KiB / size_of::<PortableType>()), and than 1024, 4096
        6 => {
            probe("frame_source.many_types");
            *rng.pick(&[140u32, 1023, 1024, 1025, 1500, 4097, 6000, 16383, 16384, 16385, 20000])
        }
        _ => rng.range(1, 9) as u32,
    };
    let mut types = Vec::new();
    if well_formed && rng.permille(15) {
        // one long dependency chain: entry i refers to entry i+1 through a
        // sequence / array / compact / tuple / one-field composite
        probe("frame_source.chain_registry");
        let n = *rng.pick(&[70u32, 300, 600, 1100, 1600, 2500]);
        for i in 0..n {
            let next = if i + 1 < n { i + 1 } else { i };
            let def = match rng.below(5) {
                0 => crate::ptype::PDef::Sequence(next),
                1 => crate::ptype::PDef::Array(i, next),
                2 => crate::ptype::PDef::Compact(next),
                3 => crate::ptype::PDef::Tuple(vec![next]),
                _ => crate::ptype::PDef::Composite(vec![crate::ptype::PField { name: None, ty: next, type_name: None, docs: vec![] }]),
            };
            types.push((i, PType { path: vec![], params: vec![], def, docs: vec![] }));
        }
        if rng.permille(500) {
            types.reverse();
            for (i, t) in types.iter_mut().enumerate() {
                t.0 = i as u32;
                t.1 = t.1.map_ids(&mut |x| n - 1 - x);
            }
        }
        return PReg { types };
    }
    if n > 1000 {
        // tiny entries, or the frame would be megabytes
        for i in 0..n {
            let id = if well_formed || rng.permille(900) { i } else { tablesim::gen_id(rng, n, 300) };
            let def = match rng.below(3) {
                0 => crate::ptype::PDef::Primitive(rng.below(15) as u8),
                1 => crate::ptype::PDef::Sequence(rng.below(n as u64) as u32),
                _ => crate::ptype::PDef::Tuple(vec![]),
            };
            types.push((id, PType { path: vec![], params: vec![], def, docs: vec![] }));
        }
        return PReg { types };
    }
    // lean registries: no names, type names or docs anywhere, so that every
    // element has its minimal encoded size
    let lean = rng.permille(150);
    if lean {
        probe("frame_source.lean_registry");
    }
    for i in 0..n {
        if lean {
            let mut t = tablesim::gen_ptype(rng, strs, n.saturating_sub(1), if well_formed { 0 } else { 150 });
            t.docs.clear();
            t.path.truncate(1);
            match &mut t.def {
                crate::ptype::PDef::Composite(fs) => fs.iter_mut().for_each(|f| {
                    f.name = None;
                    f.type_name = None;
                    f.docs.clear();
                }),
                crate::ptype::PDef::Variant(vs) => vs.iter_mut().for_each(|v| {
                    v.docs.clear();
                    v.fields.iter_mut().for_each(|f| {
                        f.name = None;
                        f.type_name = None;
                        f.docs.clear();
                    })
                }),
                _ => {}
            }
            let id = if well_formed || rng.permille(700) { i } else { tablesim::gen_id(rng, n + 2, 300) };
            types.push((id, t));
            continue;
        }
        if n < 20 && rng.permille(8) {
            probe("frame_source.bulk_collection");
            types.push((i, tablesim::gen_bulk_ptype(rng, n.saturating_sub(1))));
            continue;
        }
        if !types.is_empty() && rng.permille(60) {
            // the same description at two ids (distinct Rust types can have
            // identical descriptions)
            probe("frame_source.duplicate_description");
            let (_, t) = rng.pick(&types).clone();
            types.push((if well_formed { i } else { tablesim::gen_id(rng, n + 2, 300) }, t));
            continue;
        }
        if !well_formed && rng.permille(25) {
            // values the library itself uses as fillers: a registry may hold them
            probe("frame_source.placeholder_like_entry");
            let t = PType { path: vec![], params: vec![], def: crate::ptype::PDef::Primitive(0), docs: vec![] };
            types.push((*rng.pick(&[u32::MAX, i, 0]), t));
            continue;
        }
        if well_formed {
            types.push((i, tablesim::gen_ptype(rng, strs, n - 1, 0)));
        } else {
            let id = if rng.permille(500) { i } else { tablesim::gen_id(rng, n + 2, 300) };
            types.push((id, tablesim::gen_ptype(rng, strs, n + 2, 150)));
        }
    }
    PReg { types }
}

fn gen_frame(rng: &mut Rng, strs: &StrCfg) -> Result<PReg, String> {
    match rng.weighted(&[30, 20, 35, 15]) {
        0 => {
            probe("frame_source.direct_well_formed");
            Ok(gen_direct(rng, strs, true))
        }
        1 => {
            probe("frame_source.direct_ill_formed");
            Ok(gen_direct(rng, strs, false))
        }
        2 => {
            probe("frame_source.registry_publication");
            let mut scn = reggen::generate(rng);
            scn.owner.truncate(6);
            regsim::publish_only(&scn).map(|r| PReg::from_lib(&r))
        }
        _ => {
            probe("frame_source.builder_finish");
            let scn = tablesim::generate(rng);
            match tablesim::execute(&scn, Mask(0)) {
                Ok(mut r) => Ok(r.finished.pop().map(|x| PReg::from_lib(&x)).unwrap_or_default()),
                Err(v) => Err(v.detail),
            }
        }
    }
}

const INTERESTING: [u64; 12] = [
    0,
    1,
    63,
    64,
    16383,
    16384,
    (1 << 30) - 1,
    1 << 30,
    u32::MAX as u64 - 1,
    u32::MAX as u64,
    u32::MAX as u64 + 1,
    u64::MAX >> 2,
];

/// All targeted rewrites of one site.
pub fn rewrites_of(site: &layout::Site) -> Vec<Fault> {
    let mut out = Vec::new();
    let mut push = |new: Vec<u8>, how: &str| {
        out.push(Fault::Rewrite {
            at: site.at,
            old_len: site.len,
            new,
            class: site.class,
            how: how.to_string(),
        })
    };
    match site.class {
        FieldClass::VecLen | FieldClass::StrLen | FieldClass::Id => {
            let v = site.value;
            push(layout::compact(v + 1), "plus_one");
            if v > 0 {
                push(layout::compact(v - 1), "minus_one");
            }
            for x in INTERESTING {
                if x != v {
                    push(layout::compact(x), "interesting_value");
                }
            }
            for nc in layout::non_canonical(v) {
                push(nc, "non_canonical");
            }
            push(vec![0xff; 1], "mode3_len_67");
            push(vec![0x03 | (5 << 2), 1, 2, 3, 4, 5, 6, 7, 8, 9], "mode3_9_bytes");
        }
        FieldClass::DefTag => {
            for t in 0..=8u8 {
                if t as u64 != site.value {
                    push(vec![t], "other_tag");
                }
            }
            push(vec![255], "undefined_tag");
        }
        FieldClass::PrimTag => {
            for t in [0u8, 1, 14, 15, 16, 255] {
                if t as u64 != site.value {
                    push(vec![t], "other_prim");
                }
            }
        }
        FieldClass::OptionByte => {
            for t in [0u8, 1, 2, 255] {
                if t as u64 != site.value {
                    push(vec![t], "other_option_byte");
                }
            }
        }
        FieldClass::ArrayLen => {
            for x in [0u32, 1, 255, 65536, u32::MAX, (site.value as u32).wrapping_add(1)] {
                if x as u64 != site.value {
                    push(x.to_le_bytes().to_vec(), "array_len");
                }
            }
        }
        FieldClass::VariantIndex => {
            for t in [0u8, 255, (site.value as u8).wrapping_add(1)] {
                if t as u64 != site.value {
                    push(vec![t], "variant_index");
                }
            }
        }
        FieldClass::StrByte => {
            push(vec![0xff], "invalid_utf8");
            push(vec![0xc3], "truncated_utf8_sequence");
            push(vec![0x00], "nul");
        }
    }
    out
}

/// Targeted two-part faults on one string: the string loses its last k bytes
/// and the length prefix is corrected accordingly - a value that was cut in
/// the middle (possibly in the middle of a multi-byte character) by a writer
/// that got the length right.
pub fn string_cuts(site: &layout::Site, medium: &[u8]) -> Vec<Fault> {
    let mut out = Vec::new();
    if site.class != FieldClass::StrLen {
        return out;
    }
    let n = site.value as usize;
    let start = site.at + site.len;
    if n == 0 || start + n > medium.len() {
        return out;
    }
    for k in 1..=3usize.min(n) {
        let mut new = layout::compact((n - k) as u64);
        new.extend_from_slice(&medium[start..start + n - k]);
        out.push(Fault::Rewrite {
            at: site.at,
            old_len: site.len + n,
            new,
            class: FieldClass::StrByte,
            how: format!("string_cut_by_{}", k),
        });
    }
    out
}

fn gen_byte_fault(rng: &mut Rng, len: usize, sites: Option<&[layout::Site]>, frames: usize, medium: &[u8]) -> Fault {
    let at = |rng: &mut Rng| if len == 0 { 0 } else { rng.usize_below(len + 1) };
    let small = |rng: &mut Rng| rng.range(1, 9) as usize;
    let w = [12, 18, 8, 8, 8, 5, 5, 3, 3, 3, 27];
    match rng.weighted(&w) {
        0 => Fault::Truncate(at(rng)),
        1 => Fault::FlipBit(at(rng), rng.below(8) as u8),
        2 => Fault::SetByte(at(rng), *rng.pick(&[0u8, 1, 2, 3, 0x7f, 0x80, 0xfc, 0xfd, 0xfe, 0xff])),
        3 => {
            let n = small(rng);
            Fault::Insert(at(rng), (0..n).map(|_| rng.next_u64() as u8).collect())
        }
        4 => Fault::Delete(at(rng), small(rng)),
        5 => Fault::DupRange(at(rng), small(rng) * 4),
        6 => Fault::SwapRanges(at(rng), at(rng), small(rng)),
        7 => Fault::DropFrame(rng.below(frames.max(1) as u64) as u8),
        8 => Fault::DupFrame(rng.below(frames.max(1) as u64) as u8),
        9 => Fault::SwapFrames(rng.below(frames.max(1) as u64) as u8, rng.below(frames.max(1) as u64) as u8),
        _ => match sites {
            Some(s) if !s.is_empty() => {
                let site = rng.pick(s);
                let mut all = rewrites_of(site);
                all.extend(string_cuts(site, medium));
                let k = rng.usize_below(all.len());
                all.swap_remove(k)
            }
            _ => Fault::FlipBit(at(rng), rng.below(8) as u8),
        },
    }
}

fn gen_jval(rng: &mut Rng) -> JVal {
    match rng.below(12) {
        0 => JVal::Null,
        1 => JVal::Bool(rng.permille(500)),
        2 => JVal::Int(-1),
        3 => JVal::Int(rng.below(300) as i64),
        4 => JVal::Big(*rng.pick(&[1u64 << 32, u32::MAX as u64, u64::MAX, 256])),
        5 => JVal::Float(rng.below(4) as u32),
        6 => JVal::Str(rng.pick(&["", "composite", "u8", "bool", "U8", "x", "types", "\u{0}", "r#", "r#r#", "\u{fc}8"]).to_string()),
        7 => JVal::Str("y".repeat(rng.range(1, 70000) as usize)),
        8 => JVal::Arr,
        9 => JVal::Obj,
        _ => JVal::Deep(*rng.pick(&[2u16, 10, 127, 128, 129, 200, 1000])),
    }
}

const JKEYS: [&str; 22] = [
    "types", "id", "type", "path", "params", "def", "docs", "name", "typeName", "index", "fields",
    "variants", "len", "composite", "variant", "sequence", "array", "tuple", "primitive", "compact",
    "bitsequence", "unknown",
];

fn gen_jfault(rng: &mut Rng) -> JFault {
    let depth = rng.below(9);
    let path = (0..depth).map(|_| rng.next_u64() as u16).collect();
    let key = |rng: &mut Rng| rng.pick(&JKEYS).to_string();
    let k = rng.next_u64() as u16;
    let op = match rng.below(6) {
        0 => JOp::DeleteChild(k),
        1 => JOp::AddKey(key(rng), gen_jval(rng)),
        2 | 3 => JOp::Replace(gen_jval(rng)),
        4 => JOp::RenameChild(k, key(rng)),
        _ => JOp::DuplicateChild(k),
    };
    JFault { path, op }
}

pub fn encode_frames(frames: &[PReg]) -> Vec<Vec<u8>> {
    frames.iter().map(|f| f.to_lib().encode()).collect()
}

pub fn generate(rng: &mut Rng) -> Result<WireScenario, String> {
    let strs = StrCfg {
        odd: *rng.pick(&[0, 50, 300]),
        long: *rng.pick(&[0, 0, 0, 3, 20]),
        empty: *rng.pick(&[0, 50, 300]),
    };
    let n_frames = rng.range(1, 4) as usize;
    let mut frames = Vec::new();
    for _ in 0..n_frames {
        // a frame source that fails (library code outside the codec panicked
        // while a registry was being assembled) is not this engine's business:
        // fall back to a directly generated registry
        match gen_frame(rng, &strs) {
            Ok(f) => frames.push(f),
            Err(_) => {
                probe("frame_source.failed_replaced_by_direct");
                frames.push(gen_direct(rng, &strs, true));
            }
        }
    }
    let sentinel: Vec<u8> = (0..rng.range(0, 6)).map(|_| rng.next_u64() as u8).collect();
    let writer = gen_script(rng);
    let readers = vec![
        ReaderSpec::Slice,
        ReaderSpec::Io(gen_script(rng)),
        ReaderSpec::NoLen,
        ReaderSpec::Io(IoScript { chunks: vec![1], eintr: vec![0, 1] }),
    ];
    // faults are aimed with knowledge of the encoded frames
    let encoded = core::catch(|| encode_frames(&frames))?;
    let total: usize = encoded.iter().map(|b| b.len()).sum::<usize>() + sentinel.len();
    let mut all_sites: Vec<layout::Site> = Vec::new();
    let mut base = 0usize;
    let mut parser_ok = true;
    for b in &encoded {
        match layout::sites(b) {
            Some(s) => all_sites.extend(s.into_iter().map(|mut x| {
                x.at += base;
                x
            })),
            None => {
                parser_ok = false;
                probe("aiming_parser.disagreement");
            }
        }
        base += b.len();
    }
    let sites = if parser_ok { Some(&all_sites[..]) } else { None };
    let plain_stream: Vec<u8> = encoded.concat();
    let n_cases = *rng.pick(&[1u64, 4, 8, 16, 32]);
    let mut enabled: Vec<bool> = (0..11).map(|_| rng.permille(700)).collect();
    if !enabled.iter().any(|x| *x) {
        enabled[1] = true;
    }
    let mut cases = Vec::new();
    for _ in 0..n_cases {
        match rng.weighted(&[70, 18, 12]) {
            0 => {
                let nf = rng.range(1, 3);
                let mut faults = Vec::new();
                while (faults.len() as u64) < nf {
                    let f = gen_byte_fault(rng, total, sites, n_frames, &plain_stream);
                    let idx = match &f {
                        Fault::Truncate(_) => 0,
                        Fault::FlipBit(..) => 1,
                        Fault::SetByte(..) => 2,
                        Fault::Insert(..) => 3,
                        Fault::Delete(..) => 4,
                        Fault::DupRange(..) => 5,
                        Fault::SwapRanges(..) => 6,
                        Fault::DropFrame(_) => 7,
                        Fault::DupFrame(_) => 8,
                        Fault::SwapFrames(..) => 9,
                        Fault::Rewrite { .. } => 10,
                    };
                    if enabled[idx] || rng.permille(50) {
                        faults.push(f);
                    }
                }
                let reader = match rng.weighted(&[40, 20, 25, 15]) {
                    0 => ReaderSpec::Slice,
                    1 => ReaderSpec::Io(gen_script(rng)),
                    2 => ReaderSpec::IoErr(
                        gen_script(rng),
                        rng.usize_below(total + 2),
                        *rng.pick(&ErrKind::ALL),
                    ),
                    _ => ReaderSpec::NoLen,
                };
                cases.push(Case::Scale { faults, reader });
            }
            1 => {
                let frame = rng.below(n_frames as u64) as u8;
                // offsets are relative: resolved modulo the text length at run time
                let nf = rng.range(1, 3);
                let faults = (0..nf)
                    .map(|_| loop {
                        let f = gen_byte_fault(rng, 1 << 20, None, 1, &[]);
                        if !f.frame_level() {
                            break f;
                        }
                    })
                    .collect();
                let reader = if rng.permille(400) { Some(gen_script(rng)) } else { None };
                let err = if reader.is_some() && rng.permille(400) {
                    Some((rng.usize_below(1 << 20), *rng.pick(&ErrKind::ALL)))
                } else {
                    None
                };
                cases.push(Case::JsonText { frame, faults, reader, err });
            }
            _ => {
                let frame = rng.below(n_frames as u64) as u8;
                if rng.permille(150) {
                    cases.push(Case::JsonStyled { frame, style: rng.below(4) as u8 });
                    continue;
                }
                let nf = rng.range(1, 3);
                cases.push(Case::JsonValue { frame, faults: (0..nf).map(|_| gen_jfault(rng)).collect() });
            }
        }
    }
    let keeps = (0..n_frames)
        .map(|_| match rng.below(8) {
            0 => reggen::Keep::All,
            1 => reggen::Keep::Nothing,
            2 | 3 => reggen::Keep::One(rng.next_u64() as u32),
            4 => reggen::Keep::Last,
            5 => reggen::Keep::Prefix(rng.next_u64() as u32),
            _ => {
                let density = *rng.pick(&[20u32, 100, 300, 600]);
                let mut bits = vec![0u64; 8];
                for id in 0..512 {
                    if rng.permille(density) {
                        bits[id / 64] |= 1 << (id % 64);
                    }
                }
                reggen::Keep::Bits(bits)
            }
        })
        .collect();
    Ok(WireScenario { frames, sentinel, writer, readers, cases, keeps })
}

// ---------------------------------------------------------------------------
// applying faults
// ---------------------------------------------------------------------------

fn clamp(at: usize, len: usize) -> usize {
    at.min(len)
}

/// Apply one byte-level fault.  Offsets beyond the medium are clamped, so a
/// fault list stays applicable while it is being minimised.  `modulo`: take
/// offsets modulo the length instead (JSON text, whose length is not known
/// when faults are drawn).
pub fn apply_byte_fault(m: &mut Vec<u8>, f: &Fault, modulo: bool) {
    let len = m.len();
    let pos = |at: usize| if modulo && len > 0 { at % (len + 1) } else { clamp(at, len) };
    match f {
        Fault::Truncate(at) => m.truncate(pos(*at)),
        Fault::FlipBit(at, bit) => {
            if len > 0 {
                let p = pos(*at).min(len - 1);
                m[p] ^= 1 << (bit % 8);
            }
        }
        Fault::SetByte(at, v) => {
            if len > 0 {
                let p = pos(*at).min(len - 1);
                m[p] = *v;
            }
        }
        Fault::Insert(at, bytes) => {
            let p = pos(*at);
            m.splice(p..p, bytes.iter().copied());
        }
        Fault::Delete(at, n) => {
            let p = pos(*at);
            let e = (p + n).min(len);
            m.drain(p..e);
        }
        Fault::DupRange(at, n) => {
            let p = pos(*at);
            let e = (p + n).min(len);
            let copy: Vec<u8> = m[p..e].to_vec();
            m.splice(e..e, copy);
        }
        Fault::SwapRanges(a, b, n) => {
            let (a, b) = (pos(*a), pos(*b));
            let (a, b) = (a.min(b), a.max(b));
            let n = (*n).min(b - a).min(len - b);
            for i in 0..n {
                m.swap(a + i, b + i);
            }
        }
        Fault::Rewrite { at, old_len, new, .. } => {
            let p = pos(*at);
            let e = (p + old_len).min(len);
            m.splice(p..e, new.iter().copied());
        }
        Fault::DropFrame(_) | Fault::DupFrame(_) | Fault::SwapFrames(..) => {}
    }
}

pub fn build_medium(encoded: &[Vec<u8>], sentinel: &[u8], faults: &[Fault]) -> Vec<u8> {
    let mut frames: Vec<Vec<u8>> = encoded.to_vec();
    for f in faults {
        let n = frames.len();
        if n == 0 {
            break;
        }
        match f {
            Fault::DropFrame(k) => {
                frames.remove(*k as usize % n);
            }
            Fault::DupFrame(k) => {
                let c = frames[*k as usize % n].clone();
                frames.insert(*k as usize % n, c);
            }
            Fault::SwapFrames(a, b) => frames.swap(*a as usize % n, *b as usize % n),
            _ => {}
        }
    }
    let mut m: Vec<u8> = frames.concat();
    m.extend_from_slice(sentinel);
    for f in faults {
        apply_byte_fault(&mut m, f, false);
    }
    m
}

fn jval(v: &JVal) -> serde_json::Value {
    use serde_json::{json, Value};
    match v {
        JVal::Null => Value::Null,
        JVal::Bool(b) => json!(b),
        JVal::Int(i) => json!(i),
        JVal::Big(u) => json!(u),
        JVal::Float(k) => match k {
            0 => json!(1.5),
            1 => json!(-0.0),
            2 => json!(1e300),
            _ => json!(4294967295.0),
        },
        JVal::Str(s) => json!(s),
        JVal::Arr => json!([]),
        JVal::Obj => json!({}),
        JVal::Deep(n) => {
            let mut v = json!(0);
            for _ in 0..*n {
                v = json!([v]);
            }
            v
        }
    }
}

/// Apply a structural fault; returns whether the value changed.
pub fn apply_jfault(root: &mut serde_json::Value, f: &JFault) -> bool {
    let before = root.clone();
    jwalk(root, &f.path, &f.op);
    *root != before
}

fn jwalk(cur: &mut serde_json::Value, path: &[u16], op: &JOp) {
    use serde_json::Value;
    if let Some((step, rest)) = path.split_first() {
        let next: Option<&mut Value> = match cur {
            Value::Array(a) if !a.is_empty() => {
                let n = a.len();
                a.get_mut(*step as usize % n)
            }
            Value::Object(o) if !o.is_empty() => {
                let n = o.len();
                o.values_mut().nth(*step as usize % n)
            }
            _ => None,
        };
        if let Some(v) = next {
            return jwalk(v, rest, op);
        }
    }
    match (op, cur) {
        (JOp::Replace(v), c) => *c = jval(v),
        (JOp::DeleteChild(k), Value::Object(o)) if !o.is_empty() => {
            let key = o.keys().nth(*k as usize % o.len()).cloned().unwrap();
            o.remove(&key);
        }
        (JOp::DeleteChild(k), Value::Array(a)) if !a.is_empty() => {
            let n = a.len();
            a.remove(*k as usize % n);
        }
        (JOp::AddKey(k, v), Value::Object(o)) => {
            o.insert(k.clone(), jval(v));
        }
        (JOp::AddKey(_, v), Value::Array(a)) => a.push(jval(v)),
        (JOp::RenameChild(k, nk), Value::Object(o)) if !o.is_empty() => {
            let key = o.keys().nth(*k as usize % o.len()).cloned().unwrap();
            if let Some(v) = o.remove(&key) {
                o.insert(nk.clone(), v);
            }
        }
        (JOp::DuplicateChild(k), Value::Array(a)) if !a.is_empty() => {
            let n = a.len();
            let c = a[*k as usize % n].clone();
            a.push(c);
        }
        _ => {}
    }
}

/// Replacement values of the structural JSON sweep.
fn sweep_jvals() -> Vec<JVal> {
    vec![
        JVal::Null,
        JVal::Bool(true),
        JVal::Int(-1),
        JVal::Int(0),
        JVal::Int(255),
        JVal::Int(256),
        JVal::Big(1 << 32),
        JVal::Big(u64::MAX),
        JVal::Float(0),
        JVal::Float(3),
        JVal::Str(String::new()),
        JVal::Str("\u{fc}8".to_string()),
        JVal::Str("u8".to_string()),
        JVal::Str("U8".to_string()),
        JVal::Str("r#".to_string()),
        JVal::Str("r#r#".to_string()),
        JVal::Str(" ".to_string()),
        JVal::Str("\u{0}".to_string()),
        JVal::Arr,
        JVal::Obj,
        JVal::Deep(200),
    ]
}

const DEF_TAGS: [&str; 8] =
    ["composite", "variant", "sequence", "array", "tuple", "primitive", "compact", "bitsequence"];

/// Every single structural fault of the JSON sweep for a document: at every
/// node every replacement value; for every object member its deletion and its
/// renaming to an unknown key; an unknown key added to every object; a second
/// definition tag added to every definition object; for every array the
/// duplication and the deletion of its first element and an appended null.
pub fn json_sweep_faults(root: &serde_json::Value) -> Vec<JFault> {
    use serde_json::Value;
    fn rec(v: &Value, path: &mut Vec<u16>, out: &mut Vec<JFault>, vals: &[JVal]) {
        for x in vals {
            out.push(JFault { path: path.clone(), op: JOp::Replace(x.clone()) });
        }
        match v {
            Value::Object(o) => {
                for (k, _) in o.iter().enumerate() {
                    out.push(JFault { path: path.clone(), op: JOp::DeleteChild(k as u16) });
                    out.push(JFault { path: path.clone(), op: JOp::RenameChild(k as u16, "unknown".into()) });
                }
                out.push(JFault { path: path.clone(), op: JOp::AddKey("unknown".into(), JVal::Int(1)) });
                if o.keys().any(|k| DEF_TAGS.contains(&k.as_str())) {
                    for t in DEF_TAGS {
                        if !o.contains_key(t) {
                            out.push(JFault { path: path.clone(), op: JOp::AddKey(t.into(), JVal::Obj) });
                            out.push(JFault { path: path.clone(), op: JOp::AddKey(t.into(), JVal::Int(0)) });
                        }
                    }
                }
                for (k, (_, c)) in o.iter().enumerate() {
                    path.push(k as u16);
                    rec(c, path, out, vals);
                    path.pop();
                }
            }
            Value::Array(a) => {
                if !a.is_empty() {
                    out.push(JFault { path: path.clone(), op: JOp::DuplicateChild(0) });
                    out.push(JFault { path: path.clone(), op: JOp::DeleteChild(0) });
                }
                out.push(JFault { path: path.clone(), op: JOp::AddKey(String::new(), JVal::Null) });
                for (k, c) in a.iter().enumerate() {
                    path.push(k as u16);
                    rec(c, path, out, vals);
                    path.pop();
                }
            }
            _ => {}
        }
    }
    let mut out = Vec::new();
    rec(root, &mut Vec::new(), &mut out, &sweep_jvals());
    out
}

/// Write a JSON value in one of the styles of `Case::JsonStyled`.
pub fn write_styled(v: &serde_json::Value, style: u8, out: &mut String) {
    use serde_json::Value;
    let sp = if style == 3 { " \n\t " } else { "" };
    match v {
        Value::Object(o) => {
            out.push('{');
            out.push_str(sp);
            let mut members: Vec<(&String, &Value)> = o.iter().collect();
            if style == 0 {
                members.reverse();
            }
            let mut first = true;
            let mut emit = |k: &String, val: &Value, out: &mut String, first: &mut bool| {
                if !*first {
                    out.push(',');
                    out.push_str(sp);
                }
                *first = false;
                out.push_str(&serde_json::to_string(k).unwrap_or_default());
                out.push_str(sp);
                out.push(':');
                out.push_str(sp);
                write_styled(val, style, out);
            };
            for (i, (k, val)) in members.iter().enumerate() {
                emit(k, val, out, &mut first);
                if style == 1 && i == 0 {
                    emit(k, val, out, &mut first);
                }
            }
            if style == 2 {
                emit(&"zzz_unknown".to_string(), &Value::Null, out, &mut first);
            }
            out.push_str(sp);
            out.push('}');
        }
        Value::Array(a) => {
            out.push('[');
            out.push_str(sp);
            for (i, x) in a.iter().enumerate() {
                if i > 0 {
                    out.push(',');
                    out.push_str(sp);
                }
                write_styled(x, style, out);
            }
            out.push_str(sp);
            out.push(']');
        }
        other => out.push_str(&serde_json::to_string(other).unwrap_or_default()),
    }
}

/// Offsets and lengths of the number tokens of a JSON text (outside strings).
pub fn json_number_sites(text: &[u8]) -> Vec<(usize, usize)> {
    let mut out = Vec::new();
    let mut i = 0;
    let mut in_str = false;
    while i < text.len() {
        let b = text[i];
        if in_str {
            if b == b'\\' {
                i += 2;
                continue;
            }
            if b == b'"' {
                in_str = false;
            }
            i += 1;
        } else if b == b'"' {
            in_str = true;
            i += 1;
        } else if b.is_ascii_digit() || b == b'-' {
            let start = i;
            while i < text.len() && (text[i].is_ascii_digit() || matches!(text[i], b'-' | b'+' | b'.' | b'e' | b'E')) {
                i += 1;
            }
            out.push((start, i - start));
        } else {
            i += 1;
        }
    }
    out
}

// ---------------------------------------------------------------------------
// execution
// ---------------------------------------------------------------------------

#[derive(Default)]
pub struct WireResult {
    pub scenario_hash: u64,
    pub log_hash: u64,
    /// fault cases executed
    pub cases: u64,
    /// hashes of (fault kinds, reader kind, outcome) of cases whose fault was
    /// effective and landed inside a frame
    pub nontrivial_cases: Vec<u64>,
    /// hashes of frames that went through the fault-free configuration
    pub frames_checked: Vec<u64>,
    pub triples: BTreeSet<(String, String, String)>,
    /// hashes of (frame, filter) pairs whose retain kept some but not all entries
    pub retains_nontrivial: Vec<u64>,
}

enum Decoded {
    Ok(PortableRegistry, usize),
    Err(String),
    Panic(String),
}

/// Decode one registry from `medium[start..]` through the given reader kind.
/// Returns the outcome, the bytes consumed and the allocation usage.
fn decode_with(medium: &[u8], start: usize, reader: &ReaderSpec) -> (Decoded, alloc::Usage) {
    let data = &medium[start..];
    let (r, usage) = alloc::measure(|| {
        core::catch(|| match reader {
            ReaderSpec::Slice => {
                let mut input = data;
                let r = PortableRegistry::decode(&mut input);
                (r, data.len() - input.len(), 0, 0)
            }
            ReaderSpec::NoLen => {
                let mut input = NoLenInput { data, pos: 0 };
                let r = PortableRegistry::decode(&mut input);
                (r, input.pos, 0, 0)
            }
            ReaderSpec::Io(script) => {
                let mut input = IoReader(SimRead::new(data, script, None));
                let r = PortableRegistry::decode(&mut input);
                (r, input.0.pos, input.0.interrupts, input.0.short_reads)
            }
            ReaderSpec::IoErr(script, at, kind) => {
                let rel = at.saturating_sub(start);
                let mut input = IoReader(SimRead::new(data, script, Some((rel, *kind))));
                let r = PortableRegistry::decode(&mut input);
                if input.0.errors_returned > 0 {
                    probe("fault.io_error_returned_to_decoder");
                }
                (r, input.0.pos, input.0.interrupts, input.0.short_reads)
            }
        })
    });
    match r {
        Ok((Ok(reg), consumed, eintr, short)) => {
            probe_n("benign.eintr_on_read", eintr);
            probe_n("benign.short_read", short);
            (Decoded::Ok(reg, consumed), usage)
        }
        Ok((Err(e), _, eintr, short)) => {
            probe_n("benign.eintr_on_read", eintr);
            probe_n("benign.short_read", short);
            (Decoded::Err(e.to_string()), usage)
        }
        Err(msg) => (Decoded::Panic(msg), usage),
    }
}

fn check_alloc(mask: Mask, what: &str, usage: &alloc::Usage, medium_len: usize) -> Check {
    probe_max("max.decode_peak_alloc_bytes", usage.peak as u64);
    let bound = ALLOC_C0 + ALLOC_C1 * medium_len;
    if usage.peak > bound {
        fail(mask, "C14", "memory_proportional_to_input", || {
            format!(
                "{}: peak allocation {} bytes (largest single request {}) for an input of {} bytes; bound {}",
                what, usage.peak, usage.largest, medium_len, bound
            )
        })?;
    }
    Ok(())
}

/// `resolve` must answer, never fail: none for ids out of range, some otherwise.
fn check_resolve(mask: Mask, what: &str, reg: &PortableRegistry) -> Check {
    let p = PReg::from_lib(reg);
    let n = p.len();
    let mut ids: Vec<u32> = vec![n as u32, u32::MAX, 0];
    for (id, t) in &p.types {
        ids.push(*id);
        ids.extend(t.ids());
    }
    let r = core::catch(|| {
        for &id in &ids {
            let got = reg.resolve(id);
            // (what an id *in* range resolves to on an ill-formed registry is
            // not C14's business: C01 speaks about well-formed ones)
            if (id as usize) >= n && got.is_some() {
                return Some((id, "some for an id out of range"));
            }
        }
        None
    });
    match r {
        Ok(None) => Ok(()),
        Ok(Some((id, why))) => fail(mask, "C14", "resolve_total", || {
            format!("{}: resolve({}) answered {} ({} entries)", what, id, why, n)
        }),
        Err(msg) => fail(mask, "C14", "resolve_panicked", || format!("{}: {}", what, msg)),
    }
}

/// Fault-free control for one registry value: round trip through one reader.
fn check_round_trip(
    mask: Mask,
    what: &str,
    reg: &PortableRegistry,
    bytes: &[u8],
    reader: &ReaderSpec,
) -> Check {
    match decode_with(bytes, 0, reader) {
        (Decoded::Ok(back, consumed), _) => {
            if consumed != bytes.len() {
                fail(mask, "C07", "consumes_exactly", || {
                    format!("{} via {}: consumed {} of {} bytes", what, reader.kind(), consumed, bytes.len())
                })?;
            }
            if back != *reg || PReg::from_lib(&back) != PReg::from_lib(reg) {
                fail(mask, "C07", "round_trip_equal", || {
                    format!("{} via {}: decode(encode(x)) != x", what, reader.kind())
                })?;
            }
            Ok(())
        }
        (Decoded::Err(e), _) => fail(mask, "C07", "own_encoding_rejected", || {
            format!("{} via {}: {}", what, reader.kind(), e)
        }),
        (Decoded::Panic(m), _) => fail(mask, "C07", &core::panic_clause(&m), || {
            format!("{} via {}: {}", what, reader.kind(), m)
        }),
    }
}

pub fn execute(scn: &WireScenario, mask: Mask) -> Result<WireResult, Violation> {
    core::log_reset();
    core::set_case(None);
    let mut res = WireResult { scenario_hash: hash_of(scn), ..Default::default() };
    let r = core::catch(|| execute_inner(scn, mask, &mut res));
    res.log_hash = core::log_value();
    core::set_case(None);
    match r {
        Ok(Ok(())) => Ok(res),
        Ok(Err(v)) => Err(v),
        // decode calls catch their own panics; what arrives here is a panic in
        // encode (C07) or while frames were turned into library values
        Err(msg) if mask.has("C07") || mask.has("C14") => Err(Violation {
            property: if mask.has("C07") { "C07" } else { "C14" }.to_string(),
            clause: core::panic_clause(&msg),
            detail: format!("panic outside a decode call: {}", msg),
            case: None,
        }),
        Err(_) => {
            probe("codec_panicked_under_a_check_that_does_not_answer_for_it");
            Ok(res)
        }
    }
}

fn execute_inner(scn: &WireScenario, mask: Mask, res: &mut WireResult) -> Check {
    let libs: Vec<PortableRegistry> = scn.frames.iter().map(|f| f.to_lib()).collect();

    // ---- producer ---------------------------------------------------------
    let mut encoded: Vec<Vec<u8>> = Vec::new();
    for (k, reg) in libs.iter().enumerate() {
        let a = reg.encode();
        let b = reg.encode();
        if a != b {
            fail(mask, "C07", "encoding_deterministic", || format!("frame {}: two encodings differ", k))?;
        }
        let mut w = SimWrite::new(&scn.writer);
        reg.encode_to(&mut w);
        probe_n("benign.eintr_on_write", w.interrupts);
        probe_n("benign.short_write", w.short_writes);
        if w.out != a {
            fail(mask, "C07", "encoding_independent_of_writer_chunking", || {
                format!("frame {}: chunked writer produced different bytes", k)
            })?;
        }
        if reg.encoded_size() != a.len() {
            fail(mask, "C07", "encoded_size", || {
                format!("frame {}: encoded_size() = {}, encoding has {}", k, reg.encoded_size(), a.len())
            })?;
        }
        if mask.has("C07") {
            // the same object encoded again after an in-place edit that keeps
            // the number of entries: equal registries must give equal bytes,
            // whatever either object was used for before
            let mut obj = scn.frames[k].to_lib();
            let first = obj.encode();
            if first != a {
                fail(mask, "C07", "encoding_deterministic", || format!("frame {}: equal registries, different bytes", k))?;
            }
            if !obj.types.is_empty() {
                let j = (a.len() + k) % obj.types.len();
                obj.types[j].ty.docs.push("edited".to_string());
                obj.types[j].id = obj.types[j].id.wrapping_add(1);
                let second = obj.encode();
                let fresh = PReg::from_lib(&obj).to_lib().encode();
                if second != fresh {
                    fail(mask, "C07", "encoding_after_in_place_edit", || {
                        format!(
                            "frame {}: an object that was encoded, edited in place (entry {}) and encoded again gives other bytes than an equal fresh registry",
                            k, j
                        )
                    })?;
                }
                probe("checks.encode_edit_encode");
            }
            // the callback form of encoding, also after a consumer that failed:
            // a callback that unwinds (and is caught) must not leave anything
            // behind that the next encoding can see
            let via_callback = reg.using_encoded(|b| b.to_vec());
            if via_callback != a {
                fail(mask, "C07", "using_encoded_differs_from_encode", || {
                    format!("frame {}: using_encoded hands out {} bytes, encode() {}", k, via_callback.len(), a.len())
                })?;
            }
            struct ConsumerFailed;
            let failed = std::panic::catch_unwind(std::panic::AssertUnwindSafe(|| {
                reg.using_encoded(|_| std::panic::resume_unwind(Box::new(ConsumerFailed)))
            }));
            if let Err(payload) = failed {
                if !payload.is::<ConsumerFailed>() {
                    std::panic::resume_unwind(payload);
                }
                probe("fault.unwind_in_encode_consumer.fired");
            }
            let next = libs[(k + 1) % libs.len()].using_encoded(|b| b.to_vec());
            let want = libs[(k + 1) % libs.len()].encode();
            if next != want {
                fail(mask, "C07", "encoding_after_failed_consumer", || {
                    format!(
                        "frame {}: after a consumer callback unwound, the next using_encoded hands out {} bytes where encode() gives {}",
                        k,
                        next.len(),
                        want.len()
                    )
                })?;
            }
            // the depth-limited decoding API of the codec on the same impl
            // (real nesting of a registry is about ten levels)
            let mut input = &a[..];
            match core::catch(|| PortableRegistry::decode_with_depth_limit(48, &mut input)) {
                Ok(Ok(back)) if back == *reg && input.is_empty() => {}
                other => {
                    fail(mask, "C07", "decode_with_depth_limit", || {
                        format!(
                            "frame {}: decode_with_depth_limit(48) ended {:?} with {} bytes left",
                            k,
                            other.map(|r| r.map(|_| "ok but different").map_err(|e| e.to_string())),
                            input.len()
                        )
                    })?;
                }
            }
            match core::catch(|| PortableRegistry::decode_all_with_depth_limit(48, &mut &a[..])) {
                Ok(Ok(back)) if back == *reg => {}
                other => {
                    fail(mask, "C07", "decode_all_with_depth_limit", || {
                        format!(
                            "frame {}: decode_all_with_depth_limit(48) ended {:?}",
                            k,
                            other.map(|r| r.map(|_| "ok but different").map_err(|e| e.to_string()))
                        )
                    })?;
                }
            }
        }
        probe_max("max.frame_bytes", a.len() as u64);
        probe(match a.len() {
            0..=63 => "compact_class.frame_len.1byte",
            64..=16383 => "compact_class.frame_len.2byte",
            _ => "compact_class.frame_len.4byte",
        });
        core::log_bytes(&a);
        let mut h = Fnv::new();
        h.bytes(&a);
        res.frames_checked.push(h.finish64());
        encoded.push(a);
    }
    // injectivity, observed directly: equal bytes only for equal registries
    for i in 0..libs.len() {
        for j in i + 1..libs.len() {
            if encoded[i] == encoded[j] && scn.frames[i] != scn.frames[j] {
                fail(mask, "C07", "injective", || {
                    format!("frames {} and {} differ but share an encoding", i, j)
                })?;
            }
        }
    }

    // ---- each frame alone: the input ends exactly where the value ends ----------
    if mask.has("C07") {
        for (k, reg) in libs.iter().enumerate() {
            for reader in [&ReaderSpec::Slice, &ReaderSpec::NoLen] {
                check_round_trip(mask, &format!("frame {} alone", k), reg, &encoded[k], reader)?;
            }
            probe("checks.frame_decoded_alone");
        }
    }

    // ---- fault-free and benign configurations (C07) -------------------------
    let mut stream: Vec<u8> = encoded.concat();
    let frames_end = stream.len();
    stream.extend_from_slice(&scn.sentinel);
    if mask.has("C07") {
        for reader in &scn.readers {
            let mut pos = 0usize;
            for (k, reg) in libs.iter().enumerate() {
                let (d, usage) = decode_with(&stream, pos, reader);
                check_alloc(mask, "fault-free decode", &usage, stream.len())?;
                match d {
                    Decoded::Ok(back, consumed) => {
                        if consumed != encoded[k].len() {
                            fail(mask, "C07", "consumes_exactly", || {
                                format!(
                                    "frame {} via {}: consumed {} bytes, the encoding has {}",
                                    k,
                                    reader.kind(),
                                    consumed,
                                    encoded[k].len()
                                )
                            })?;
                        }
                        if back != *reg || PReg::from_lib(&back) != scn.frames[k] {
                            fail(mask, "C07", "round_trip_equal", || {
                                format!("frame {} via {}: decode(encode(x)) != x", k, reader.kind())
                            })?;
                        }
                        if back.encode() != encoded[k] {
                            fail(mask, "C07", "re_encode_equal", || {
                                format!("frame {} via {}: re-encoding differs", k, reader.kind())
                            })?;
                        }
                        // skipping a value must move the stream exactly as decoding it does
                        if matches!(reader, ReaderSpec::Slice) {
                            let mut input = &stream[pos..];
                            let before_len = input.len();
                            let skipped = core::catch(|| <PortableRegistry as Decode>::skip(&mut input));
                            match skipped {
                                Ok(Ok(())) if before_len - input.len() == consumed => {}
                                other => {
                                    fail(mask, "C07", "skip_consumes_exactly", || {
                                        format!(
                                            "frame {}: skip() ended {:?} after {} bytes, decode consumed {}",
                                            k,
                                            other.map(|r| r.map_err(|e| e.to_string())),
                                            before_len - input.len(),
                                            consumed
                                        )
                                    })?;
                                }
                            }
                        }
                        pos += consumed;
                    }
                    Decoded::Err(e) => {
                        fail(mask, "C07", "own_encoding_rejected", || {
                            format!("frame {} via {}: {}", k, reader.kind(), e)
                        })?;
                        break;
                    }
                    Decoded::Panic(m) => {
                        fail(mask, "C07", &core::panic_clause(&m), || {
                            format!("frame {} via {}: {}", k, reader.kind(), m)
                        })?;
                        break;
                    }
                }
                probe("checks.fault_free_frame_decode");
            }
            if pos == frames_end && stream[pos..] != scn.sentinel[..] {
                fail(mask, "C07", "sentinel_intact", || "bytes after the frames changed".to_string())?;
            }
            match reader {
                ReaderSpec::NoLen => probe("reach.remaining_len_none_path"),
                ReaderSpec::Io(_) => probe("reach.io_reader_path"),
                _ => {}
            }
        }
    }

    // ---- consumer step: retain on what was decoded (C10, C01) -------------------
    if mask.has("C10") || mask.has("C01") {
        for (k, keep) in scn.keeps.iter().enumerate() {
            let Some(before) = scn.frames.get(k) else { break };
            if !before.well_formed() {
                continue;
            }
            // "by decoding its own output": through a slice and through an
            // input that does not know its length
            for reader in [&ReaderSpec::Slice, &ReaderSpec::NoLen] {
                if let (Decoded::Ok(dec, _), _) = decode_with(&encoded[k], 0, reader) {
                    let p = PReg::from_lib(&dec);
                    crate::oracle::check_well_formed(mask, "decode_own_output", &dec, &p)?;
                }
            }
            let Ok(Ok(mut reg)) = core::catch(|| PortableRegistry::decode(&mut &encoded[k][..])) else { continue };
            // the model starts from the registry retain is actually given (a
            // lossy decode is C07's business, not retain's)
            let before_owned = PReg::from_lib(&reg);
            let before = &before_owned;
            if !before.well_formed() {
                continue;
            }
            let len = before.len();
            let accepted: Vec<u32> = (0..len as u32).filter(|&id| keep.accepts(id, len)).collect();
            match core::catch(|| reg.retain(|id| keep.accepts(id, len))) {
                Ok(map) => {
                    let after = PReg::from_lib(&reg);
                    if mask.has("C10") {
                        crate::oracle::check_retain(mask, before, &accepted, &after, &map)?;
                    }
                    crate::oracle::check_well_formed(mask, "retain_after_decode", &reg, &after)?;
                    probe("checks.retain_after_decode");
                    if !map.is_empty() && map.len() < len {
                        res.retains_nontrivial.push(hash_of(&(res.scenario_hash, k as u64)));
                    }
                    if before.types.iter().any(|(_, t)| t.kind() == "bitsequence") {
                        probe("reach.retain_on_registry_with_bit_sequence");
                    }
                }
                Err(msg) => {
                    fail(mask, "C10", &core::panic_clause(&msg), || {
                        format!("retain on decoded frame {} panicked: {}", k, msg)
                    })?;
                }
            }
        }
    }
    // Fault cases run under C14 only.  (The plan had their survivors feed C07's
    // population; but a fault case that kills the process - an unbounded
    // allocation, say - would then be blamed on C07, which does not speak about
    // corrupted input.  C07 draws its ill-formed registries from the direct
    // generator instead; survivors are still round-tripped when both
    // properties are checked together, as the determinism self-test does.)
    if !mask.has("C14") {
        return Ok(());
    }

    // ---- fault cases (C14), survivors feed C07 ------------------------------
    let mut survivors: Vec<PortableRegistry> = Vec::new();
    for (ci, case) in scn.cases.iter().enumerate() {
        res.cases += 1;
        core::set_case(Some(ci));
        match case {
            Case::Scale { faults, reader } => {
                let medium = build_medium(&encoded, &scn.sentinel, faults);
                let first_diff = stream.iter().zip(&medium).position(|(a, b)| a != b).or(
                    if stream.len() != medium.len() { Some(stream.len().min(medium.len())) } else { None },
                );
                let effective = first_diff.is_some();
                let inside = first_diff.map(|d| d < frames_end).unwrap_or(false);
                for f in faults {
                    probe(kind_probe(f.kind(), "injected"));
                    if effective {
                        probe(kind_probe(f.kind(), "effective"));
                    }
                }
                if let ReaderSpec::IoErr(_, at, _) = reader {
                    probe(if *at < frames_end { "reach.io_error_inside_frames" } else { "reach.io_error_after_frames" });
                }
                let mut pos = 0usize;
                let mut outcome = String::new();
                for k in 0..scn.frames.len() + 2 {
                    if pos >= medium.len() && k > 0 {
                        break;
                    }
                    let (d, usage) = decode_with(&medium, pos, reader);
                    check_alloc(mask, &format!("case {} decode {}", ci, k), &usage, medium.len())?;
                    match d {
                        Decoded::Ok(reg, consumed) => {
                            outcome.push('k');
                            let again = core::catch(|| reg.encode());
                            match again {
                                Ok(bytes) => {
                                    if bytes[..] != medium[pos..pos + consumed] {
                                        fail(mask, "C14", "canonical_re_encode", || {
                                            format!(
                                                "case {} decode {} via {}: decoded {} bytes at offset {} but the registry re-encodes to {} different bytes",
                                                ci, k, reader.kind(), consumed, pos, bytes.len()
                                            )
                                        })?;
                                    }
                                }
                                Err(m) => {
                                    fail(mask, "C14", "re_encode_panicked", || m.clone())?;
                                }
                            }
                            if let ReaderSpec::IoErr(_, at, _) = reader {
                                assert!(pos + consumed <= (*at).max(pos), "simulated reader handed out bytes past its error");
                            }
                            check_resolve(mask, &format!("case {} decode {}", ci, k), &reg)?;
                            if consumed < medium.len() - pos {
                                probe("reach.decode_consumed_less_than_medium");
                            }
                            if effective {
                                if survivors.len() < 8 && !scn.frames.iter().any(|f| *f == PReg::from_lib(&reg)) {
                                    survivors.push(reg);
                                    probe("reach.decode_survived_a_fault_with_a_new_registry");
                                }
                            }
                            if consumed == 0 {
                                break;
                            }
                            pos += consumed;
                        }
                        Decoded::Err(_) => {
                            outcome.push('e');
                            break;
                        }
                        Decoded::Panic(m) => {
                            fail(mask, "C14", &core::panic_clause(&m), || {
                                format!("case {} decode {} via {}: decode panicked: {}", ci, k, reader.kind(), m)
                            })?;
                            outcome.push('p');
                            break;
                        }
                    }
                }
                if effective && outcome.contains('k') {
                    for f in faults {
                        probe(kind_probe(f.kind(), "survived"));
                    }
                }
                // the same bytes through the codec's depth-limited API (its error
                // paths do their own bookkeeping): no panic, and the same verdict
                if matches!(reader, ReaderSpec::Slice) {
                    let mut input = &medium[..];
                    let (r, usage) = alloc::measure(|| {
                        core::catch(|| PortableRegistry::decode_with_depth_limit(48, &mut input).map(|r| r.encode()))
                    });
                    check_alloc(mask, &format!("case {} depth-limited decode", ci), &usage, medium.len())?;
                    match r {
                        Err(m) => {
                            fail(mask, "C14", &format!("depth_limited.{}", core::panic_clause(&m)), || {
                                format!("case {}: decode_with_depth_limit panicked: {}", ci, m)
                            })?;
                        }
                        Ok(Ok(bytes)) => {
                            let consumed = medium.len() - input.len();
                            if bytes[..] != medium[..consumed] {
                                fail(mask, "C14", "depth_limited.canonical_re_encode", || {
                                    format!("case {}: decode_with_depth_limit accepted {} bytes that re-encode differently", ci, consumed)
                                })?;
                            }
                            if !outcome.starts_with('k') {
                                fail(mask, "C14", "depth_limited.accepts_what_decode_rejects", || {
                                    format!("case {}: decode_with_depth_limit(48) accepted input that decode() rejects", ci)
                                })?;
                            }
                        }
                        Ok(Err(_)) => {}
                    }
                }
                core::log_bytes(outcome.as_bytes());
                let kinds: Vec<&str> = faults.iter().map(|f| f.kind()).collect();
                let oc = if outcome.ends_with('e') && outcome.len() == 1 { "error" } else if outcome.contains('e') { "partial" } else { "ok" };
                res.triples.insert((kinds.join("+"), reader.kind().to_string(), oc.to_string()));
                if effective && inside {
                    res.nontrivial_cases.push(hash_of(&(res.scenario_hash, ci as u64)));
                }
            }
            Case::JsonText { frame, faults, reader, err } => {
                let k = *frame as usize % libs.len();
                let mut w = SimWrite::new(&scn.writer);
                serde_json::to_writer(&mut w, &libs[k]).expect("serialising to a simulated writer cannot fail");
                let text0 = w.out;
                if serde_json::to_vec(&libs[k]).ok().as_ref() != Some(&text0) {
                    probe("json.writer_chunking_changed_text");
                }
                let mut text = text0.clone();
                for f in faults {
                    apply_byte_fault(&mut text, f, true);
                    probe(kind_probe(f.kind(), "injected_json"));
                }
                let effective = text != text0;
                let (r, usage) = alloc::measure(|| {
                    core::catch(|| match reader {
                        None => serde_json::from_slice::<PortableRegistry>(&text).map_err(|e| e.to_string()),
                        Some(script) => {
                            let e = err.map(|(at, kind)| (at % (text.len() + 1), kind));
                            serde_json::from_reader::<_, PortableRegistry>(SimRead::new(&text, script, e))
                                .map_err(|e| e.to_string())
                        }
                    })
                });
                check_alloc(mask, &format!("case {} json text", ci), &usage, text.len())?;
                let oc = match r {
                    Ok(Ok(reg)) => {
                        check_resolve(mask, &format!("case {} json text", ci), &reg)?;
                        if effective && survivors.len() < 8 && PReg::from_lib(&reg) != scn.frames[k] {
                            survivors.push(reg);
                            probe("reach.json_survived_a_fault_with_a_new_registry");
                        }
                        "ok"
                    }
                    Ok(Err(_)) => "error",
                    Err(m) => {
                        fail(mask, "C14", &format!("json.{}", core::panic_clause(&m)), || {
                            format!("case {}: deserialising faulted JSON text panicked: {}", ci, m)
                        })?;
                        "panic"
                    }
                };
                core::log_bytes(oc.as_bytes());
                let kinds: Vec<&str> = faults.iter().map(|f| f.kind()).collect();
                res.triples.insert((
                    format!("json:{}", kinds.join("+")),
                    if reader.is_some() { "from_reader" } else { "from_slice" }.to_string(),
                    oc.to_string(),
                ));
                if effective {
                    res.nontrivial_cases.push(hash_of(&(res.scenario_hash, ci as u64)));
                }
            }
            Case::JsonStyled { frame, style } => {
                let k = *frame as usize % libs.len();
                let v = serde_json::to_value(&libs[k]).expect("to_value cannot fail");
                let mut text = String::new();
                write_styled(&v, *style % 4, &mut text);
                probe("fault.json_styled.injected");
                let (r, usage) = alloc::measure(|| {
                    core::catch(|| serde_json::from_str::<PortableRegistry>(&text).map_err(|e| e.to_string()))
                });
                check_alloc(mask, &format!("case {} json styled", ci), &usage, text.len())?;
                let oc = match r {
                    Ok(Ok(reg)) => {
                        check_resolve(mask, &format!("case {} json styled", ci), &reg)?;
                        "ok"
                    }
                    Ok(Err(_)) => "error",
                    Err(m) => {
                        fail(mask, "C14", &format!("json.{}", core::panic_clause(&m)), || {
                            format!("case {}: deserialising a restyled JSON document panicked: {}", ci, m)
                        })?;
                        "panic"
                    }
                };
                core::log_bytes(oc.as_bytes());
                res.triples.insert((format!("json:styled{}", style % 4), "from_str".to_string(), oc.to_string()));
                res.nontrivial_cases.push(hash_of(&(res.scenario_hash, ci as u64)));
            }
            Case::JsonValue { frame, faults } => {
                let k = *frame as usize % libs.len();
                let mut v = serde_json::to_value(&libs[k]).expect("to_value cannot fail");
                let mut effective = false;
                for f in faults {
                    effective |= apply_jfault(&mut v, f);
                    probe("fault.json_structural.injected");
                }
                if effective {
                    probe("fault.json_structural.effective");
                }
                // size of the document, for the allocation bound
                let text_len = serde_json::to_vec(&v).map(|t| t.len()).unwrap_or(0);
                let (r, usage) = alloc::measure(|| {
                    core::catch(|| serde_json::from_value::<PortableRegistry>(v).map_err(|e| e.to_string()))
                });
                check_alloc(mask, &format!("case {} json value", ci), &usage, text_len)?;
                let oc = match r {
                    Ok(Ok(reg)) => {
                        check_resolve(mask, &format!("case {} json value", ci), &reg)?;
                        if effective {
                            probe("fault.json_structural.survived");
                            if survivors.len() < 8 && PReg::from_lib(&reg) != scn.frames[k] {
                                survivors.push(reg);
                            }
                        }
                        "ok"
                    }
                    Ok(Err(_)) => "error",
                    Err(m) => {
                        fail(mask, "C14", &format!("json.{}", core::panic_clause(&m)), || {
                            format!("case {}: from_value on a faulted document panicked: {}", ci, m)
                        })?;
                        "panic"
                    }
                };
                core::log_bytes(oc.as_bytes());
                res.triples.insert(("json:structural".to_string(), "from_value".to_string(), oc.to_string()));
                if effective {
                    res.nontrivial_cases.push(hash_of(&(res.scenario_hash, ci as u64)));
                }
            }
        }
    }

    // ---- survivors: the ill-formed-but-decodable population of C07 ---------------
    if mask.has("C07") {
        for (i, reg) in survivors.iter().enumerate() {
            let bytes = reg.encode();
            for reader in [&scn.readers[0], &scn.readers[1]] {
                check_round_trip(mask, &format!("survivor {}", i), reg, &bytes, reader)?;
            }
            // injectivity against the original frames
            for (k, f) in scn.frames.iter().enumerate() {
                if bytes == encoded[k] && PReg::from_lib(reg) != *f {
                    fail(mask, "C07", "injective", || {
                        format!("survivor {} differs from frame {} but shares its encoding", i, k)
                    })?;
                }
            }
            let mut h = Fnv::new();
            h.bytes(&bytes);
            res.frames_checked.push(h.finish64());
            probe("checks.survivor_round_trip");
        }
    }
    Ok(())
}

fn kind_probe(kind: &str, what: &str) -> &'static str {
    // probe names must be 'static: intern the few combinations that exist
    use std::cell::RefCell;
    use std::collections::BTreeMap;
    thread_local! {
        static NAMES: RefCell<BTreeMap<(String, String), &'static str>> = const { RefCell::new(BTreeMap::new()) };
    }
    NAMES.with(|n| {
        let mut n = n.borrow_mut();
        *n.entry((kind.to_string(), what.to_string()))
            .or_insert_with(|| Box::leak(format!("fault.{}.{}", kind, what).into_boxed_str()))
    })
}

// ---------------------------------------------------------------------------
// exhaustive single-fault sweep (C14, fault_enumeration)
// ---------------------------------------------------------------------------

pub const SWEEP_MAX_FRAME: usize = 2048;

/// Every single fault of the sweep for a frame of `len` bytes with the given
/// aiming sites: every truncation, every bit flip, an I/O error of every kind
/// at every offset, every targeted rewrite of every site.
pub fn sweep_cases(len: usize, sites: Option<&[layout::Site]>, bytes: &[u8]) -> Vec<Case> {
    let mut out = Vec::new();
    let plain = IoScript::plain();
    for at in 0..len {
        out.push(Case::Scale { faults: vec![Fault::Truncate(at)], reader: ReaderSpec::Slice });
        out.push(Case::Scale { faults: vec![Fault::Truncate(at)], reader: ReaderSpec::NoLen });
    }
    for at in 0..len {
        for bit in 0..8 {
            out.push(Case::Scale { faults: vec![Fault::FlipBit(at, bit)], reader: ReaderSpec::Slice });
            // the codec sizes its buffers differently when the input does not
            // know its length: flip every bit on that path as well
            out.push(Case::Scale { faults: vec![Fault::FlipBit(at, bit)], reader: ReaderSpec::NoLen });
        }
    }
    for at in 0..=len {
        for kind in ErrKind::ALL {
            out.push(Case::Scale { faults: vec![], reader: ReaderSpec::IoErr(plain.clone(), at, kind) });
        }
    }
    if let Some(sites) = sites {
        for s in sites {
            for f in rewrites_of(s).into_iter().chain(string_cuts(s, bytes)) {
                out.push(Case::Scale { faults: vec![f.clone()], reader: ReaderSpec::Slice });
                out.push(Case::Scale { faults: vec![f.clone()], reader: ReaderSpec::NoLen });
                out.push(Case::Scale { faults: vec![f], reader: ReaderSpec::Io(plain.clone()) });
            }
        }
    }
    out
}

/// The sweep scenario of one frame: all single faults as cases.
pub fn sweep_scenario(frame: &PReg) -> Result<Option<WireScenario>, String> {
    let bytes = core::catch(|| frame.to_lib().encode())?;
    if bytes.len() > SWEEP_MAX_FRAME {
        probe("sweep.frames_skipped_larger_than_2048_bytes");
        return Ok(None);
    }
    let sites = layout::sites(&bytes);
    if sites.is_none() {
        probe("aiming_parser.disagreement");
    }
    let mut cases = sweep_cases(bytes.len(), sites.as_deref(), &bytes);
    let n_scale_cases = cases.len();
    // the JSON form of the same frame: every single structural fault, and
    // every number token rewritten to out-of-range / malformed numbers
    let lib = frame.to_lib();
    if let Ok(v) = core::catch(|| serde_json::to_value(&lib).expect("to_value")) {
        let faults = json_sweep_faults(&v);
        if faults.len() <= 40_000 {
            probe("sweep.json_documents_swept");
            probe_n("sweep.single_faults.json_structural", faults.len() as u64);
            cases.extend(faults.into_iter().map(|f| Case::JsonValue { frame: 0, faults: vec![f] }));
        } else {
            probe("sweep.json_documents_skipped_too_many_nodes");
        }
        for style in 0..4u8 {
            cases.push(Case::JsonStyled { frame: 0, style });
        }
        if let Ok(text) = serde_json::to_vec(&lib) {
            let mut n = 0u64;
            for (at, len) in json_number_sites(&text) {
                for new in ["1e400", "-1", "4294967296", "4294967295", "1.5", "3.0", "0.0", "1e2", "2E0", "256", "01", "99999999999999999999999", "1e-400", "-0"] {
                    cases.push(Case::JsonText {
                        frame: 0,
                        faults: vec![Fault::Rewrite {
                            at,
                            old_len: len,
                            new: new.as_bytes().to_vec(),
                            class: FieldClass::Id,
                            how: "json_number".to_string(),
                        }],
                        reader: None,
                        err: None,
                    });
                    n += 1;
                }
            }
            // every truncation of the text
            for at in 0..text.len().min(SWEEP_MAX_FRAME) {
                cases.push(Case::JsonText { frame: 0, faults: vec![Fault::Truncate(at)], reader: None, err: None });
                n += 1;
            }
            probe_n("sweep.single_faults.json_text", n);
        }
    }
    probe("sweep.frames_swept");
    probe_n("sweep.frame_bytes_swept", bytes.len() as u64);
    probe_n("sweep.single_faults.truncation_points_x2_readers", 2 * bytes.len() as u64);
    probe_n("sweep.single_faults.bit_flips_x2_readers", 16 * bytes.len() as u64);
    probe_n("sweep.single_faults.io_error_offsets_x6_kinds", 6 * (bytes.len() as u64 + 1));
    probe_n(
        "sweep.single_faults.targeted_rewrites_x3_readers",
        n_scale_cases as u64 - 18 * bytes.len() as u64 - 6 * (bytes.len() as u64 + 1),
    );
    if let Some(s) = &sites {
        probe_n("sweep.fields_located_by_aiming_parser", s.len() as u64);
    }
    Ok(Some(WireScenario {
        frames: vec![frame.clone()],
        sentinel: vec![],
        writer: IoScript::plain(),
        readers: vec![ReaderSpec::Slice, ReaderSpec::Io(IoScript::plain())],
        cases,
        keeps: vec![],
    }))
}

#[allow(dead_code)]
pub fn ptype_count(p: &PReg) -> usize {
    p.types.len()
}

#[allow(dead_code)]
fn _unused(_: &PType) {}
