//! The only source of randomness in the harness: splitmix64 to derive run
//! seeds, xoshiro256** as the per-run stream.  Written here so that the
//! stream never changes with a dependency version.

pub const GOLDEN: u64 = 0x9E37_79B9_7F4A_7C15;

#[inline]
pub fn splitmix64(mut z: u64) -> u64 {
    z = z.wrapping_add(GOLDEN);
    z = (z ^ (z >> 30)).wrapping_mul(0xBF58_476D_1CE4_E5B9);
    z = (z ^ (z >> 27)).wrapping_mul(0x94D0_49BB_1331_11EB);
    z ^ (z >> 31)
}

/// Seed of run `index` in the batch selected by `verif_seed`, for `engine`
/// (a small constant per engine so the engines do not share streams).
pub fn run_seed(verif_seed: u64, engine: u64, index: u64) -> u64 {
    splitmix64(verif_seed ^ splitmix64(engine.wrapping_mul(0xA24B_AED4_963E_E407)) ^ index.wrapping_mul(GOLDEN))
}

#[derive(Clone, Debug)]
pub struct Rng {
    s: [u64; 4],
    pub draws: u64,
}

impl Rng {
    pub fn new(seed: u64) -> Self {
        let mut z = seed;
        let mut s = [0u64; 4];
        for x in s.iter_mut() {
            z = splitmix64(z);
            *x = z;
        }
        if s == [0; 4] {
            s[0] = 1;
        }
        Rng { s, draws: 0 }
    }

    #[inline]
    pub fn next_u64(&mut self) -> u64 {
        self.draws += 1;
        let r = self.s[1].wrapping_mul(5).rotate_left(7).wrapping_mul(9);
        let t = self.s[1] << 17;
        self.s[2] ^= self.s[0];
        self.s[3] ^= self.s[1];
        self.s[1] ^= self.s[2];
        self.s[0] ^= self.s[3];
        self.s[2] ^= t;
        self.s[3] = self.s[3].rotate_left(45);
        r
    }

    /// Uniform in `0..n` (`n > 0`).  Lemire's multiply-shift without rejection:
    /// the bias is < 2^-32 for the n used here and irrelevant to the search.
    #[inline]
    pub fn below(&mut self, n: u64) -> u64 {
        debug_assert!(n > 0);
        ((self.next_u64() as u128 * n as u128) >> 64) as u64
    }

    #[inline]
    pub fn usize_below(&mut self, n: usize) -> usize {
        self.below(n as u64) as usize
    }

    /// Inclusive range.
    #[inline]
    pub fn range(&mut self, lo: u64, hi: u64) -> u64 {
        lo + self.below(hi - lo + 1)
    }

    /// True with probability `p` / 1000.
    #[inline]
    pub fn permille(&mut self, p: u32) -> bool {
        self.below(1000) < p as u64
    }

    pub fn pick<'a, T>(&mut self, xs: &'a [T]) -> &'a T {
        &xs[self.usize_below(xs.len())]
    }

    pub fn shuffle<T>(&mut self, xs: &mut [T]) {
        for i in (1..xs.len()).rev() {
            let j = self.usize_below(i + 1);
            xs.swap(i, j);
        }
    }

    /// Index drawn according to integer weights.
    pub fn weighted(&mut self, weights: &[u32]) -> usize {
        let total: u64 = weights.iter().map(|&w| w as u64).sum();
        debug_assert!(total > 0);
        let mut x = self.below(total);
        for (i, &w) in weights.iter().enumerate() {
            if x < w as u64 {
                return i;
            }
            x -= w as u64;
        }
        weights.len() - 1
    }
}

/// FNV-1a, 64 bit: hashing of scenarios, event logs and registries for the
/// "distinct" measures and the determinism self-test.
#[derive(Clone, Copy)]
pub struct Fnv(pub u64);

impl Default for Fnv {
    fn default() -> Self {
        Fnv(0xcbf2_9ce4_8422_2325)
    }
}

impl Fnv {
    pub fn new() -> Self {
        Self::default()
    }
    #[inline]
    pub fn bytes(&mut self, b: &[u8]) {
        for &x in b {
            self.0 ^= x as u64;
            self.0 = self.0.wrapping_mul(0x0000_0100_0000_01B3);
        }
    }
    #[inline]
    pub fn u64(&mut self, x: u64) {
        self.bytes(&x.to_le_bytes());
    }
    pub fn finish64(&self) -> u64 {
        // final avalanche so that truncations are usable
        splitmix64(self.0)
    }
}

impl std::hash::Hasher for Fnv {
    fn finish(&self) -> u64 {
        self.finish64()
    }
    fn write(&mut self, bytes: &[u8]) {
        self.bytes(bytes)
    }
}

pub fn hash_of<T: std::hash::Hash>(t: &T) -> u64 {
    use std::hash::Hasher;
    let mut h = Fnv::new();
    t.hash(&mut h);
    h.finish()
}
