//! Harness-owned mirror of the portable data model.  Oracles work on these
//! plain structures (converted from the library's values through public
//! fields only), so that the reference walker, the renaming and the equality
//! used by the checks are harness code written from the property statements
//! and not the library's own `match`es.  Scenarios store registries in this
//! form as well, which keeps replay files independent of the library's serde.

use scale_info::{
    form::PortableForm, interner::UntrackedSymbol, Field, Path, PortableRegistry, PortableType,
    Type, TypeDef, TypeDefArray, TypeDefBitSequence, TypeDefCompact, TypeDefComposite,
    TypeDefSequence, TypeDefTuple, TypeDefVariant, TypeParameter, Variant,
};
use serde::{Deserialize, Serialize};
use std::any::TypeId;

use crate::universe::PRIMITIVES;

#[derive(Clone, PartialEq, Eq, PartialOrd, Ord, Debug, Hash, Serialize, Deserialize)]
pub struct PField {
    pub name: Option<String>,
    pub ty: u32,
    pub type_name: Option<String>,
    pub docs: Vec<String>,
}

#[derive(Clone, PartialEq, Eq, PartialOrd, Ord, Debug, Hash, Serialize, Deserialize)]
pub struct PVariant {
    pub name: String,
    pub fields: Vec<PField>,
    pub index: u8,
    pub docs: Vec<String>,
}

#[derive(Clone, PartialEq, Eq, PartialOrd, Ord, Debug, Hash, Serialize, Deserialize)]
pub enum PDef {
    Composite(Vec<PField>),
    Variant(Vec<PVariant>),
    Sequence(u32),
    Array(u32, u32),
    Tuple(Vec<u32>),
    Primitive(u8),
    Compact(u32),
    BitSeq(u32, u32),
}

#[derive(Clone, PartialEq, Eq, PartialOrd, Ord, Debug, Hash, Serialize, Deserialize)]
pub struct PType {
    pub path: Vec<String>,
    pub params: Vec<(String, Option<u32>)>,
    pub def: PDef,
    pub docs: Vec<String>,
}

/// A portable registry as plain data: `(id, type)` in list order.
#[derive(Clone, PartialEq, Eq, Debug, Hash, Serialize, Deserialize, Default)]
pub struct PReg {
    pub types: Vec<(u32, PType)>,
}

type Sym = UntrackedSymbol<TypeId>;

fn sym(id: u32) -> Sym {
    id.into()
}

fn prim_index(p: &scale_info::TypeDefPrimitive) -> u8 {
    PRIMITIVES
        .iter()
        .position(|q| q == p)
        .expect("unknown primitive") as u8
}

fn field_from(f: &Field<PortableForm>) -> PField {
    PField {
        name: f.name.clone(),
        ty: f.ty.id,
        type_name: f.type_name.clone(),
        docs: f.docs.clone(),
    }
}

// Library values are built with the public constructor and then every public
// field is assigned: a constructor that normalises its arguments cannot mask
// what the scenario asks for, and a private field added to a struct does not
// stop the harness from compiling.
fn field_to(f: &PField) -> Field<PortableForm> {
    let mut out = Field::new(None, sym(f.ty), None, Vec::new());
    out.name = f.name.clone();
    out.ty = sym(f.ty);
    out.type_name = f.type_name.clone();
    out.docs = f.docs.clone();
    out
}

fn variant_to(v: &PVariant) -> Variant<PortableForm> {
    let mut out = Variant::new(String::new(), Vec::new(), 0, Vec::new());
    out.name = v.name.clone();
    out.fields = v.fields.iter().map(field_to).collect();
    out.index = v.index;
    out.docs = v.docs.clone();
    out
}

pub fn variant_from(v: &Variant<PortableForm>) -> PVariant {
    PVariant {
        name: v.name.clone(),
        fields: v.fields.iter().map(field_from).collect(),
        index: v.index,
        docs: v.docs.clone(),
    }
}

#[allow(dead_code)]
pub fn field_from_pub(f: &Field<PortableForm>) -> PField {
    field_from(f)
}

pub fn def_from(d: &TypeDef<PortableForm>) -> PDef {
    match d {
        TypeDef::Composite(c) => PDef::Composite(c.fields.iter().map(field_from).collect()),
        TypeDef::Variant(v) => PDef::Variant(v.variants.iter().map(variant_from).collect()),
        TypeDef::Sequence(s) => PDef::Sequence(s.type_param.id),
        TypeDef::Array(a) => PDef::Array(a.len, a.type_param.id),
        TypeDef::Tuple(t) => PDef::Tuple(t.fields.iter().map(|x| x.id).collect()),
        TypeDef::Primitive(p) => PDef::Primitive(prim_index(p)),
        TypeDef::Compact(c) => PDef::Compact(c.type_param.id),
        TypeDef::BitSequence(b) => PDef::BitSeq(b.bit_store_type.id, b.bit_order_type.id),
    }
}

pub fn def_to(d: &PDef) -> TypeDef<PortableForm> {
    match d {
        PDef::Composite(fs) => {
            let mut d = TypeDefComposite::new(Vec::new());
            d.fields = fs.iter().map(field_to).collect();
            d.into()
        }
        PDef::Variant(vs) => {
            let mut d = TypeDefVariant::new(Vec::new());
            d.variants = vs.iter().map(variant_to).collect();
            d.into()
        }
        PDef::Sequence(t) => TypeDefSequence::new(sym(*t)).into(),
        PDef::Array(n, t) => {
            let mut d = TypeDefArray::new(0, sym(*t));
            d.len = *n;
            d.type_param = sym(*t);
            d.into()
        }
        PDef::Tuple(ts) => {
            let mut d = TypeDefTuple::new_portable(Vec::new());
            d.fields = ts.iter().map(|&t| sym(t)).collect();
            d.into()
        }
        PDef::Primitive(p) => PRIMITIVES[*p as usize % 15].clone().into(),
        PDef::Compact(t) => TypeDefCompact::new(sym(*t)).into(),
        PDef::BitSeq(a, b) => TypeDefBitSequence::new_portable(sym(*a), sym(*b)).into(),
    }
}

impl PType {
    pub fn from_lib(t: &Type<PortableForm>) -> PType {
        PType {
            path: t.path.segments.clone(),
            params: t
                .type_params
                .iter()
                .map(|p| (p.name.clone(), p.ty.map(|x| x.id)))
                .collect(),
            def: def_from(&t.type_def),
            docs: t.docs.clone(),
        }
    }

    pub fn to_lib(&self) -> Type<PortableForm> {
        let mut path = Path::from_segments_unchecked(Vec::<String>::new());
        path.segments = self.path.clone();
        let mut out = Type::new(path.clone(), Vec::new(), def_to(&self.def), Vec::new());
        out.path = path;
        out.type_params = self
            .params
            .iter()
            .map(|(n, t)| {
                let mut p = TypeParameter::new_portable(String::new(), None);
                p.name = n.clone();
                p.ty = t.map(sym);
                p
            })
            .collect();
        out.type_def = def_to(&self.def);
        out.docs = self.docs.clone();
        out
    }

    /// Every type id mentioned in this type, in positional order: type
    /// parameters first, then the definition left to right.  Written from the
    /// list in the statement of C01/C10: fields, variant fields, type
    /// parameters, sequence/array/compact element, tuple members, bit-sequence
    /// store and order.
    pub fn ids(&self) -> Vec<u32> {
        let mut out = Vec::new();
        for (_, t) in &self.params {
            if let Some(t) = t {
                out.push(*t);
            }
        }
        match &self.def {
            PDef::Composite(fs) => out.extend(fs.iter().map(|f| f.ty)),
            PDef::Variant(vs) => {
                for v in vs {
                    out.extend(v.fields.iter().map(|f| f.ty));
                }
            }
            PDef::Sequence(t) | PDef::Array(_, t) | PDef::Compact(t) => out.push(*t),
            PDef::Tuple(ts) => out.extend(ts.iter().copied()),
            PDef::Primitive(_) => {}
            PDef::BitSeq(a, b) => {
                out.push(*a);
                out.push(*b);
            }
        }
        out
    }

    /// The same type with every mentioned id replaced through `f`.
    pub fn map_ids(&self, f: &mut dyn FnMut(u32) -> u32) -> PType {
        let mut t = self.clone();
        for (_, p) in t.params.iter_mut() {
            if let Some(p) = p {
                *p = f(*p);
            }
        }
        match &mut t.def {
            PDef::Composite(fs) => fs.iter_mut().for_each(|x| x.ty = f(x.ty)),
            PDef::Variant(vs) => {
                for v in vs.iter_mut() {
                    v.fields.iter_mut().for_each(|x| x.ty = f(x.ty));
                }
            }
            PDef::Sequence(x) | PDef::Array(_, x) | PDef::Compact(x) => *x = f(*x),
            PDef::Tuple(ts) => ts.iter_mut().for_each(|x| *x = f(*x)),
            PDef::Primitive(_) => {}
            PDef::BitSeq(a, b) => {
                *a = f(*a);
                *b = f(*b);
            }
        }
        t
    }

    pub fn kind(&self) -> &'static str {
        match self.def {
            PDef::Composite(_) => "composite",
            PDef::Variant(_) => "variant",
            PDef::Sequence(_) => "sequence",
            PDef::Array(..) => "array",
            PDef::Tuple(_) => "tuple",
            PDef::Primitive(_) => "primitive",
            PDef::Compact(_) => "compact",
            PDef::BitSeq(..) => "bitsequence",
        }
    }
}

/// A `PortableRegistry` holding exactly these entries, built without a struct
/// literal (so that a private field added to the library's struct does not stop
/// the harness from compiling): an empty registry whose public `types` field is
/// then assigned.
pub fn registry_of(types: Vec<PortableType>) -> PortableRegistry {
    let mut r = PortableRegistry::from(scale_info::Registry::new());
    r.types = types;
    r
}

impl PReg {
    pub fn from_lib(r: &PortableRegistry) -> PReg {
        PReg {
            types: r
                .types
                .iter()
                .map(|t| (t.id, PType::from_lib(&t.ty)))
                .collect(),
        }
    }

    pub fn to_lib(&self) -> PortableRegistry {
        registry_of(
            self.types
                .iter()
                .map(|(id, t)| {
                    let mut e = PortableType::new(*id, t.to_lib());
                    e.id = *id;
                    e
                })
                .collect(),
        )
    }

    pub fn len(&self) -> usize {
        self.types.len()
    }

    /// `None` if dense (entry at position i carries id i), else the first
    /// offending position.
    pub fn first_not_dense(&self) -> Option<usize> {
        self.types
            .iter()
            .enumerate()
            .find(|(i, (id, _))| *id as usize != *i)
            .map(|(i, _)| i)
    }

    /// `None` if closed (every mentioned id < len), else (position, id).
    pub fn first_dangling(&self) -> Option<(usize, u32)> {
        let n = self.types.len() as u64;
        for (i, (_, t)) in self.types.iter().enumerate() {
            for id in t.ids() {
                if id as u64 >= n {
                    return Some((i, id));
                }
            }
        }
        None
    }

    pub fn well_formed(&self) -> bool {
        self.first_not_dense().is_none() && self.first_dangling().is_none()
    }

    /// Reachability closure of `roots` (positions) over the reference walker.
    /// Requires a well-formed registry.
    pub fn reach(&self, roots: impl IntoIterator<Item = u32>) -> std::collections::BTreeSet<u32> {
        let mut seen = std::collections::BTreeSet::new();
        let mut stack: Vec<u32> = roots.into_iter().collect();
        while let Some(i) = stack.pop() {
            if !seen.insert(i) {
                continue;
            }
            for j in self.types[i as usize].1.ids() {
                if !seen.contains(&j) {
                    stack.push(j);
                }
            }
        }
        seen
    }
}
