//! Scenario minimisation: greedy delta debugging over the recorded scenario
//! while the same property and the same oracle clause keep failing.

use crate::core::{Mask, Violation};
use crate::ptype::{PDef, PReg, PType};
use crate::reggen::{ChainStep, ItemSpec, Keep, RegScenario, Req};
use crate::tablesim::{TabOp, TabScenario};
use crate::universe::{DefSpec, NodeSpec, TyRef, K, W};
use crate::wiresim::{Case, ReaderSpec, WireScenario};
use crate::{regsim, tablesim, wiresim};
use serde::{Deserialize, Serialize};

#[derive(Clone, Debug, Serialize, Deserialize)]
#[serde(tag = "scenario_engine", content = "scenario")]
pub enum Scenario {
    #[serde(rename = "regsim")]
    Reg(RegScenario),
    #[serde(rename = "tablesim")]
    Tab(TabScenario),
    #[serde(rename = "wiresim")]
    Wire(WireScenario),
}

impl Scenario {
    #[allow(dead_code)]
    pub fn engine(&self) -> &'static str {
        match self {
            Scenario::Reg(_) => "regsim",
            Scenario::Tab(_) => "tablesim",
            Scenario::Wire(_) => "wiresim",
        }
    }

    pub fn exec(&self, mask: Mask) -> Option<Violation> {
        match self {
            Scenario::Reg(s) => regsim::execute(s, mask).err(),
            Scenario::Tab(s) => tablesim::execute(s, mask).err(),
            Scenario::Wire(s) => wiresim::execute(s, mask).err(),
        }
    }

    /// Size measure used to prefer smaller scenarios (monotone under every shrink).
    pub fn size(&self) -> usize {
        serde_json::to_vec(self).map(|v| v.len()).unwrap_or(usize::MAX)
    }

    /// Offer shrink candidates one at a time to `try_it`; stop at the first
    /// one it accepts.  Candidates are built lazily: a scenario can be large
    /// (thousands of types) and the list of its shrinks quadratic in that.
    fn shrink_with(&self, try_it: &mut dyn FnMut(Scenario) -> bool) -> bool {
        match self {
            Scenario::Reg(s) => shrink_reg(s, &mut |c| try_it(Scenario::Reg(c))),
            Scenario::Tab(s) => shrink_tab(s, &mut |c| try_it(Scenario::Tab(c))),
            Scenario::Wire(s) => shrink_wire(s, &mut |c| try_it(Scenario::Wire(c))),
        }
    }
}

fn same(a: &Violation, b: &Violation) -> bool {
    a.property == b.property && a.clause == b.clause
}

pub struct Minimised {
    pub scenario: Scenario,
    pub violation: Violation,
    pub executions: u32,
    pub accepted: u32,
}

pub fn minimise(
    start: &Scenario,
    v: &Violation,
    mask: Mask,
    budget: u32,
    tick: &mut dyn FnMut(u32),
) -> Minimised {
    let mut cur = start.clone();
    let mut cur_v = v.clone();
    let mut executions = 0u32;
    let mut accepted = 0u32;
    // a failing fault case is known by its index: keep only that one first
    if let (Scenario::Wire(w), Some(ci)) = (&cur, v.case) {
        if w.cases.len() > 1 && ci < w.cases.len() {
            let cand = Scenario::Wire(WireScenario { cases: vec![w.cases[ci].clone()], ..w.clone() });
            executions += 1;
            if let Some(v2) = cand.exec(mask) {
                if same(&v2, v) {
                    cur = cand;
                    cur_v = v2;
                    accepted += 1;
                }
            }
        }
    }
    let t0 = std::time::Instant::now();
    let limit = std::time::Duration::from_secs(
        std::env::var("VERIF_MIN_SECONDS").ok().and_then(|x| x.parse().ok()).unwrap_or(120),
    );
    loop {
        let mut next: Option<(Scenario, Violation)> = None;
        let mut out_of_budget = false;
        cur.shrink_with(&mut |cand| {
            if executions >= budget || t0.elapsed() > limit {
                out_of_budget = true;
                return true; // stop generating
            }
            executions += 1;
            tick(executions);
            if let Some(v2) = cand.exec(mask) {
                if same(&v2, v) {
                    next = Some((cand, v2));
                    return true;
                }
            }
            false
        });
        match next {
            Some((c, v2)) => {
                cur = c;
                cur_v = v2;
                accepted += 1;
            }
            None => break,
        }
        if out_of_budget {
            break;
        }
    }
    Minimised { scenario: cur, violation: cur_v, executions, accepted }
}

/// Minimisation with an arbitrary acceptance test (used for crashes and
/// hangs, where each attempt runs in a child process).
pub fn minimise_by(
    start: &Scenario,
    budget: u32,
    limit: std::time::Duration,
    still_fails: &mut dyn FnMut(&Scenario) -> bool,
) -> (Scenario, u32, u32) {
    let mut cur = start.clone();
    let mut executions = 0u32;
    let mut accepted = 0u32;
    let t0 = std::time::Instant::now();
    loop {
        let mut next: Option<Scenario> = None;
        let mut out = false;
        cur.shrink_with(&mut |cand| {
            if executions >= budget || t0.elapsed() > limit {
                out = true;
                return true;
            }
            executions += 1;
            if still_fails(&cand) {
                next = Some(cand);
                return true;
            }
            false
        });
        match next {
            Some(c) => {
                cur = c;
                accepted += 1;
            }
            None => break,
        }
        if out {
            break;
        }
    }
    (cur, executions, accepted)
}

// ---------------------------------------------------------------------------

fn without<T: Clone>(v: &[T], i: usize) -> Vec<T> {
    let mut o = v.to_vec();
    o.remove(i);
    o
}

fn u8ref() -> TyRef {
    TyRef::corpus(2)
}

fn shrink_node(n: &NodeSpec) -> Vec<NodeSpec> {
    let mut out = Vec::new();
    let leaf = NodeSpec { path: vec![], params: vec![], docs: vec![], def: DefSpec::Primitive(3) };
    if *n != leaf {
        out.push(leaf);
    }
    if !n.params.is_empty() {
        out.push(NodeSpec { params: vec![], ..n.clone() });
        for i in 0..n.params.len() {
            out.push(NodeSpec { params: without(&n.params, i), ..n.clone() });
        }
    }
    if !n.docs.is_empty() {
        out.push(NodeSpec { docs: vec![], ..n.clone() });
    }
    if !n.path.is_empty() {
        out.push(NodeSpec { path: vec![], ..n.clone() });
    }
    match &n.def {
        DefSpec::Composite(fs) => {
            for i in 0..fs.len() {
                out.push(NodeSpec { def: DefSpec::Composite(without(fs, i)), ..n.clone() });
            }
            for i in 0..fs.len() {
                let f = &fs[i];
                if f.name.is_some() || f.type_name.is_some() || !f.docs.is_empty() {
                    let mut g = fs.clone();
                    g[i].type_name = None;
                    g[i].docs = vec![];
                    out.push(NodeSpec { def: DefSpec::Composite(g), ..n.clone() });
                }
            }
        }
        DefSpec::Variant(vs) => {
            for i in 0..vs.len() {
                out.push(NodeSpec { def: DefSpec::Variant(without(vs, i)), ..n.clone() });
            }
            for i in 0..vs.len() {
                for j in 0..vs[i].fields.len() {
                    let mut g = vs.clone();
                    g[i].fields.remove(j);
                    out.push(NodeSpec { def: DefSpec::Variant(g), ..n.clone() });
                }
                if !vs[i].docs.is_empty() {
                    let mut g = vs.clone();
                    g[i].docs = vec![];
                    out.push(NodeSpec { def: DefSpec::Variant(g), ..n.clone() });
                }
            }
        }
        DefSpec::Tuple(ts) => {
            for i in 0..ts.len() {
                out.push(NodeSpec { def: DefSpec::Tuple(without(ts, i)), ..n.clone() });
            }
        }
        _ => {}
    }
    // simplify references: to a primitive, then to the bare node
    let mut probe = n.clone();
    let count = probe.refs_mut().len();
    for i in 0..count {
        let mut m = n.clone();
        let r = *m.refs_mut()[i];
        if r != u8ref() {
            *m.refs_mut()[i] = u8ref();
            out.push(m);
        }
        if r.w != W::Bare && r.w != W::Corpus {
            let mut m = n.clone();
            m.refs_mut()[i].w = W::Bare;
            out.push(m);
        }
    }
    out
}

fn shrink_req(r: &Req) -> Vec<Req> {
    let mut out = Vec::new();
    match r {
        Req::Register(t) => {
            if t.w != W::Bare && t.w != W::Corpus {
                out.push(Req::Register(TyRef::bare(t.n)));
            }
        }
        Req::RegisterMany(ts) => {
            for i in 0..ts.len() {
                out.push(Req::RegisterMany(without(ts, i)));
            }
            if ts.len() == 1 {
                out.push(Req::Register(ts[0]));
            }
        }
        Req::Item(item) => {
            for t in item.refs() {
                out.push(Req::Register(t));
            }
            match item {
                ItemSpec::Fields(fs) => {
                    for i in 0..fs.len() {
                        out.push(Req::Item(ItemSpec::Fields(without(fs, i))));
                    }
                }
                ItemSpec::Pallet { name, calls, event, storage, constants } => {
                    if calls.is_some() {
                        out.push(Req::Item(ItemSpec::Pallet {
                            name: *name,
                            calls: None,
                            event: *event,
                            storage: storage.clone(),
                            constants: constants.clone(),
                        }));
                    }
                    if event.is_some() {
                        out.push(Req::Item(ItemSpec::Pallet {
                            name: *name,
                            calls: *calls,
                            event: None,
                            storage: storage.clone(),
                            constants: constants.clone(),
                        }));
                    }
                    for i in 0..storage.len() {
                        out.push(Req::Item(ItemSpec::Pallet {
                            name: *name,
                            calls: *calls,
                            event: *event,
                            storage: without(storage, i),
                            constants: constants.clone(),
                        }));
                    }
                    for i in 0..constants.len() {
                        out.push(Req::Item(ItemSpec::Pallet {
                            name: *name,
                            calls: *calls,
                            event: *event,
                            storage: storage.clone(),
                            constants: without(constants, i),
                        }));
                    }
                }
                ItemSpec::Variant(v) => {
                    for i in 0..v.fields.len() {
                        let mut w = v.clone();
                        w.fields.remove(i);
                        out.push(Req::Item(ItemSpec::Variant(w)));
                    }
                }
                _ => {}
            }
        }
    }
    out
}

fn shrink_reg(s: &RegScenario, try_it: &mut dyn FnMut(RegScenario) -> bool) -> bool {
    shrink_reg_vec(s).into_iter().any(|c| try_it(c))
}

fn shrink_reg_vec(s: &RegScenario) -> Vec<RegScenario> {
    let mut out = Vec::new();
    // chain
    if !s.chain.is_empty() {
        out.push(RegScenario { chain: vec![], ..s.clone() });
        for i in 0..s.chain.len() {
            out.push(RegScenario { chain: without(&s.chain, i), ..s.clone() });
        }
        for i in 0..s.chain.len() {
            if let ChainStep::Retain(Keep::Bits(b)) = &s.chain[i] {
                // fewer accepted ids
                for w in 0..b.len() {
                    let mut word = b[w];
                    while word != 0 {
                        let bit = word.trailing_zeros();
                        word &= word - 1;
                        let mut c = s.chain.clone();
                        let mut nb = b.clone();
                        nb[w] &= !(1u64 << bit);
                        c[i] = ChainStep::Retain(Keep::Bits(nb));
                        out.push(RegScenario { chain: c, ..s.clone() });
                    }
                }
            }
        }
    }
    // messages: remove one from both sites (all its deliveries), halves first
    let mut msgs: Vec<u32> = s.owner.iter().map(|d| d.msg).collect();
    msgs.sort();
    msgs.dedup();
    let drop_msgs = |keep: &dyn Fn(u32) -> bool| RegScenario {
        owner: s.owner.iter().filter(|d| keep(d.msg)).cloned().collect(),
        replica: s.replica.iter().filter(|d| keep(d.msg)).cloned().collect(),
        prefix_at: 0,
        ..s.clone()
    };
    if msgs.len() >= 2 {
        let mid = msgs[msgs.len() / 2];
        out.push(drop_msgs(&|m| m < mid));
        out.push(drop_msgs(&|m| m >= mid));
    }
    for &m in &msgs {
        out.push(drop_msgs(&|x| x != m));
    }
    // duplicates only
    for i in 0..s.owner.len() {
        if s.owner[i].dup {
            let (m, d) = (s.owner[i].msg, true);
            out.push(RegScenario {
                owner: without(&s.owner, i),
                replica: {
                    let mut r = s.replica.clone();
                    if let Some(j) = r.iter().position(|x| x.msg == m && x.dup == d) {
                        r.remove(j);
                    }
                    r
                },
                prefix_at: 0,
                ..s.clone()
            });
        }
    }
    // collapse orders
    let mut sorted = s.owner.clone();
    sorted.sort_by_key(|d| (d.msg, d.dup));
    if s.owner.iter().map(|d| (d.msg, d.dup)).ne(sorted.iter().map(|d| (d.msg, d.dup))) {
        out.push(RegScenario { owner: sorted.clone(), ..s.clone() });
    }
    if s.replica.iter().map(|d| (d.msg, d.dup)).ne(s.owner.iter().map(|d| (d.msg, d.dup))) {
        out.push(RegScenario { replica: s.owner.clone(), ..s.clone() });
    }
    if s.prefix_at != 0 {
        out.push(RegScenario { prefix_at: 0, ..s.clone() });
    }
    // simpler requests (same request at both sites)
    for &m in &msgs {
        if let Some(d) = s.owner.iter().find(|d| d.msg == m) {
            for r in shrink_req(&d.req) {
                let mut t = s.clone();
                for x in t.owner.iter_mut().chain(t.replica.iter_mut()) {
                    if x.msg == m {
                        x.req = r.clone();
                    }
                }
                out.push(t);
            }
        }
    }
    // type graph
    for i in 0..s.nodes.len() {
        for n in shrink_node(&s.nodes[i]) {
            let mut t = s.clone();
            t.nodes[i] = n;
            out.push(t);
        }
    }
    for i in 0..s.unwind_nodes.len() {
        if s.unwind_nodes.len() > 1 {
            out.push(RegScenario { unwind_nodes: without(&s.unwind_nodes, i), ..s.clone() });
        }
    }
    let id: Vec<u8> = (0..K as u8).collect();
    if s.perm != id {
        out.push(RegScenario { perm: id, ..s.clone() });
    }
    out
}

fn simple_ptype() -> PType {
    PType { path: vec![], params: vec![], def: PDef::Primitive(3), docs: vec![] }
}

fn shrink_ptype(t: &PType) -> Vec<PType> {
    let mut out = Vec::new();
    if *t != simple_ptype() {
        out.push(simple_ptype());
    }
    if !t.path.is_empty() {
        out.push(PType { path: vec![], ..t.clone() });
    }
    if !t.params.is_empty() {
        out.push(PType { params: vec![], ..t.clone() });
    }
    if !t.docs.is_empty() {
        out.push(PType { docs: vec![], ..t.clone() });
    }
    match &t.def {
        PDef::Composite(fs) => {
            for i in 0..fs.len() {
                out.push(PType { def: PDef::Composite(without(fs, i)), ..t.clone() });
            }
        }
        PDef::Variant(vs) => {
            for i in 0..vs.len() {
                out.push(PType { def: PDef::Variant(without(vs, i)), ..t.clone() });
            }
        }
        PDef::Tuple(ts) => {
            for i in 0..ts.len() {
                out.push(PType { def: PDef::Tuple(without(ts, i)), ..t.clone() });
            }
        }
        _ => {}
    }
    out
}

fn shrink_tab(s: &TabScenario, try_it: &mut dyn FnMut(TabScenario) -> bool) -> bool {
    shrink_tab_vec(s).into_iter().any(|c| try_it(c))
}

fn shrink_tab_vec(s: &TabScenario) -> Vec<TabScenario> {
    let mut out = Vec::new();
    if !s.interner_ops.is_empty() {
        out.push(TabScenario { interner_ops: vec![], ..s.clone() });
    }
    if s.ops.len() > 1 {
        out.push(TabScenario { ops: vec![(0, TabOp::Finish)], ..s.clone() });
        let h = s.ops.len() / 2;
        out.push(TabScenario { ops: s.ops[..h].to_vec(), ..s.clone() });
        out.push(TabScenario { ops: s.ops[h..].to_vec(), ..s.clone() });
    }
    for i in 0..s.ops.len() {
        out.push(TabScenario { ops: without(&s.ops, i), ..s.clone() });
    }
    if s.interner_ops.len() > 1 {
        let h = s.interner_ops.len() / 2;
        out.push(TabScenario { interner_ops: s.interner_ops[..h].to_vec(), ..s.clone() });
        out.push(TabScenario { interner_ops: s.interner_ops[h..].to_vec(), ..s.clone() });
    }
    for i in 0..s.interner_ops.len() {
        // faults are addressed by operation index: shift them along
        let faults = s
            .interner_faults
            .iter()
            .filter(|f| f.0 as usize != i)
            .map(|f| if f.0 as usize > i { (f.0 - 1, f.1) } else { *f })
            .collect();
        out.push(TabScenario { interner_ops: without(&s.interner_ops, i), interner_faults: faults, ..s.clone() });
    }
    for i in 0..s.interner_faults.len() {
        if s.interner_faults.len() > 1 {
            out.push(TabScenario { interner_faults: without(&s.interner_faults, i), ..s.clone() });
        }
    }
    for i in 0..s.pool.len() {
        for t in shrink_ptype(&s.pool[i]) {
            let mut n = s.clone();
            n.pool[i] = t;
            out.push(n);
        }
    }
    for i in 0..s.ops.len() {
        if let TabOp::RegisterFresh(t) = &s.ops[i].1 {
            for u in shrink_ptype(t) {
                let mut n = s.clone();
                n.ops[i].1 = TabOp::RegisterFresh(u);
                out.push(n);
            }
        }
    }
    out
}

/// Lazily offer smaller registries: chunks of entries removed (halves, then
/// quarters, ... then single entries), then simpler entries.
fn shrink_preg(p: &PReg, try_it: &mut dyn FnMut(PReg) -> bool) -> bool {
    let n = p.types.len();
    let mut chunk = n / 2;
    while chunk >= 1 {
        let mut start = 0;
        while start < n {
            let end = (start + chunk).min(n);
            let mut t = Vec::with_capacity(n - (end - start));
            t.extend_from_slice(&p.types[..start]);
            t.extend_from_slice(&p.types[end..]);
            if try_it(PReg { types: t }) {
                return true;
            }
            start = end;
        }
        if chunk == 1 {
            break;
        }
        chunk /= 2;
    }
    // simplifying single entries only pays for small registries
    if n <= 64 {
        for i in 0..n {
            for t in shrink_ptype(&p.types[i].1) {
                let mut c = p.clone();
                c.types[i].1 = t;
                if try_it(c) {
                    return true;
                }
            }
            if p.types[i].0 != i as u32 {
                let mut c = p.clone();
                c.types[i].0 = i as u32;
                if try_it(c) {
                    return true;
                }
            }
        }
    }
    false
}

fn shrink_wire(s: &WireScenario, try_it: &mut dyn FnMut(WireScenario) -> bool) -> bool {
    macro_rules! offer {
        ($c:expr) => {
            if try_it($c) {
                return true;
            }
        };
    }
    // one case at a time is what a violation needs
    if !s.cases.is_empty() {
        offer!(WireScenario { cases: vec![], ..s.clone() });
    }
    if s.cases.len() > 1 {
        for i in 0..s.cases.len() {
            offer!(WireScenario { cases: vec![s.cases[i].clone()], ..s.clone() });
        }
    }
    if s.frames.len() > 1 {
        for i in 0..s.frames.len() {
            offer!(WireScenario {
                frames: vec![s.frames[i].clone()],
                keeps: s.keeps.get(i).cloned().into_iter().collect(),
                ..s.clone()
            });
        }
    }
    if !s.keeps.is_empty() {
        offer!(WireScenario { keeps: vec![], ..s.clone() });
    }
    if !s.sentinel.is_empty() {
        offer!(WireScenario { sentinel: vec![], ..s.clone() });
    }
    if s.readers.len() > 1 {
        for i in 0..s.readers.len() {
            offer!(WireScenario { readers: vec![s.readers[i].clone()], ..s.clone() });
        }
    }
    let plain = crate::io::IoScript::plain();
    if s.writer != plain {
        offer!(WireScenario { writer: plain.clone(), ..s.clone() });
    }
    for (ci, c) in s.cases.iter().enumerate() {
        let mut cands: Vec<Case> = Vec::new();
        match c {
            Case::Scale { faults, reader } => {
                if faults.len() > 1 {
                    for i in 0..faults.len() {
                        cands.push(Case::Scale { faults: without(faults, i), reader: reader.clone() });
                    }
                }
                if *reader != ReaderSpec::Slice && !matches!(reader, ReaderSpec::IoErr(..)) {
                    cands.push(Case::Scale { faults: faults.clone(), reader: ReaderSpec::Slice });
                }
                if let ReaderSpec::IoErr(sc, at, k) = reader {
                    if *sc != plain {
                        cands.push(Case::Scale {
                            faults: faults.clone(),
                            reader: ReaderSpec::IoErr(plain.clone(), *at, *k),
                        });
                    }
                }
            }
            Case::JsonText { frame, faults, reader, err } => {
                if faults.len() > 1 {
                    for i in 0..faults.len() {
                        cands.push(Case::JsonText {
                            frame: *frame,
                            faults: without(faults, i),
                            reader: reader.clone(),
                            err: *err,
                        });
                    }
                }
                if reader.is_some() {
                    cands.push(Case::JsonText { frame: *frame, faults: faults.clone(), reader: None, err: None });
                }
            }
            Case::JsonStyled { .. } => {}
            Case::JsonValue { frame, faults } => {
                if faults.len() > 1 {
                    for i in 0..faults.len() {
                        cands.push(Case::JsonValue { frame: *frame, faults: without(faults, i) });
                    }
                }
            }
        }
        for c2 in cands {
            let mut n = s.clone();
            n.cases[ci] = c2;
            offer!(n);
        }
    }
    // shrinking a frame moves offsets, so it is tried last and only helps
    // when the faults still hit; offsets are clamped, never out of range
    for i in 0..s.frames.len() {
        let hit = shrink_preg(&s.frames[i], &mut |p| {
            let mut n = s.clone();
            n.frames[i] = p;
            try_it(n)
        });
        if hit {
            return true;
        }
    }
    false
}
