//! Engine 3: several simulated clients drive one `PortableRegistryBuilder` and
//! one `Interner<T>` through interleaved scripts; every return value is
//! compared, call by call, with a duplicate-free list (C12).  `finish()`
//! outputs are also checked for density (C01) and handed to wiresim.

use crate::core::{self, fail, probe, Check, Mask, Violation};
use crate::pool::{self, s, StrCfg};
use crate::ptype::{PDef, PField, PReg, PType, PVariant};
use crate::rng::{hash_of, Rng};
use scale_info::{interner::Interner, PortableRegistry, PortableRegistryBuilder};
use serde::{Deserialize, Serialize};

#[derive(Clone, Debug, Hash, Serialize, Deserialize)]
pub struct TabCfg {
    pub pool_size: u8,
    pub clients: u8,
    pub ops: u16,
    pub strs: StrCfg,
    /// permille of register calls that use a never-seen value
    pub fresh: u32,
    pub finish_rate: u32,
    pub big_ids: u32,
}

#[derive(Clone, PartialEq, Eq, Debug, Hash, Serialize, Deserialize)]
pub enum TabOp {
    /// register the pool value
    Register(u8),
    /// register a value no other operation uses
    RegisterFresh(PType),
    NextId,
    /// remember `next_type_id()` for this client
    Announce,
    /// register a type one of whose fields refers to the announced id
    RegisterAnnounced(u8),
    Get(u32),
    Finish,
    /// protocol-following client: register the pool value with every id it
    /// mentions replaced by an id the builder has handed out before
    RegisterDisciplined(u8),
    /// the documented self-reference protocol in one step: read
    /// `next_type_id()`, register a (disciplined) value that also refers to it
    RegisterSelfRef(u8),
    /// register `n` tiny distinct values (array types whose length is a counter),
    /// to take the table across size thresholds (256, 2^14, ...)
    RegisterBurst(u32),
}

#[derive(Clone, PartialEq, Eq, Debug, Hash, Serialize, Deserialize)]
pub enum IntOp {
    Intern(u8),
    Get(u8),
    /// resolve the donor's symbol for pool value k (its id is k)
    Resolve(u8),
    Elements,
}

#[derive(Clone, Debug, Hash, Serialize, Deserialize)]
pub struct TabScenario {
    pub cfg: TabCfg,
    pub pool: Vec<PType>,
    /// (client, op) in delivery order
    pub ops: Vec<(u8, TabOp)>,
    /// which element type the interner script runs on: 0 = u8, 1 = String, 2 = Type
    pub interner_kind: u8,
    pub interner_ops: Vec<IntOp>,
    /// every client follows the protocol: values mention only ids the builder
    /// returned or announced; then `finish()` must be closed (C01)
    #[serde(default)]
    pub disciplined: bool,
    /// fault-injecting configuration of the interner script (interner_kind 3,
    /// an element type whose `clone` and `cmp` can unwind): for interner
    /// operation `i`, unwind out of the n-th clone-or-compare call it makes
    #[serde(default)]
    pub interner_faults: Vec<(u16, u16)>,
}

// ---------------------------------------------------------------------------
// generation of portable types (also used by wiresim's direct generator)
// ---------------------------------------------------------------------------

pub fn gen_id(rng: &mut Rng, near: u32, big: u32) -> u32 {
    if rng.permille(big) {
        return *rng.pick(&[63u32, 64, 16383, 16384, (1 << 30) - 1, 1 << 30, 0x6000_0000, (1 << 31) - 1, 1 << 31, (1 << 31) + 1, 0xC000_0000, u32::MAX - 1, u32::MAX]);
    }
    rng.below(near as u64 + 1) as u32
}

fn text(rng: &mut Rng, c: &StrCfg) -> String {
    s(pool::any(rng, c)).to_string()
}

fn gen_pfield(rng: &mut Rng, c: &StrCfg, near: u32, big: u32) -> PField {
    PField {
        name: if rng.permille(500) { Some(text(rng, c)) } else { None },
        ty: gen_id(rng, near, big),
        type_name: if rng.permille(500) { Some(text(rng, c)) } else { None },
        docs: (0..rng.below(3)).map(|_| text(rng, c)).collect(),
    }
}

pub fn gen_ptype(rng: &mut Rng, c: &StrCfg, near: u32, big: u32) -> PType {
    let nf = |rng: &mut Rng| if rng.permille(30) { rng.range(8, 20) } else { rng.below(4) };
    let def = match rng.weighted(&[30, 25, 8, 8, 10, 9, 5, 5]) {
        0 => PDef::Composite((0..nf(rng)).map(|_| gen_pfield(rng, c, near, big)).collect()),
        1 => PDef::Variant(
            (0..nf(rng))
                .map(|_| PVariant {
                    name: text(rng, c),
                    fields: (0..rng.below(3)).map(|_| gen_pfield(rng, c, near, big)).collect(),
                    index: rng.below(256) as u8,
                    docs: (0..rng.below(3)).map(|_| text(rng, c)).collect(),
                })
                .collect(),
        ),
        2 => PDef::Sequence(gen_id(rng, near, big)),
        3 => PDef::Array(
            *rng.pick(&[0u32, 1, 32, 63, 64, 16383, 16384, 1 << 30, u32::MAX]),
            gen_id(rng, near, big),
        ),
        4 => PDef::Tuple((0..nf(rng)).map(|_| gen_id(rng, near, big)).collect()),
        5 => PDef::Primitive(rng.below(15) as u8),
        6 => PDef::Compact(gen_id(rng, near, big)),
        _ => PDef::BitSeq(gen_id(rng, near, big), gen_id(rng, near, big)),
    };
    PType {
        path: (0..rng.below(4)).map(|_| text(rng, c)).collect(),
        params: (0..rng.below(3))
            .map(|_| {
                (
                    text(rng, c),
                    if rng.permille(300) { None } else { Some(gen_id(rng, near, big)) },
                )
            })
            .collect(),
        def,
        docs: (0..rng.below(3)).map(|_| text(rng, c)).collect(),
    }
}

/// A type with one collection large enough to cross the codec's 16 KiB
/// pre-allocation chunk for its element type (so that decoding it takes the
/// multi-chunk path), elements as small as possible.
pub fn gen_bulk_ptype(rng: &mut Rng, near: u32) -> PType {
    // tail-loaded (half of the time): every element refers to entry 0 except
    // the last few, which hold the only reference to the highest entry - what a
    // loop that stops early (at 255, 256, 1024, ...) would never see
    let tail = rng.permille(500);
    let count = std::cell::Cell::new(0u32);
    let total = std::cell::Cell::new(0u32);
    let id = |rng: &mut Rng| {
        let k = count.get();
        count.set(k + 1);
        if tail {
            if k + 3 >= total.get() { near } else { 0 }
        } else {
            rng.below(near as u64 + 1) as u32
        }
    };
    let fld = |rng: &mut Rng| PField { name: None, ty: id(rng), type_name: None, docs: vec![] };
    let mut t = PType { path: vec![], params: vec![], def: PDef::Primitive(0), docs: vec![] };
    match rng.below(6) {
        0 => t.docs = vec![String::new(); rng.range(683, 1500) as usize],
        1 => {
            let n = rng.range(4097, 9000) as u32;
            total.set(n);
            t.def = PDef::Tuple((0..n).map(|_| id(rng)).collect())
        }
        2 => {
            let n = rng.range(200, 700) as u32;
            total.set(n);
            t.def = PDef::Composite((0..n).map(|_| fld(rng)).collect())
        }
        3 => {
            let n = rng.range(200, 700) as u32;
            // one field per variant when tail-loaded, else a field in every tenth
            total.set(n);
            t.def = PDef::Variant(
                (0..n)
                    .map(|i| PVariant {
                        name: String::new(),
                        fields: if tail || rng.permille(100) { vec![fld(rng)] } else { vec![] },
                        index: i as u8,
                        docs: vec![],
                    })
                    .collect(),
            )
        }
        4 => t.path = vec!["p".to_string(); rng.range(683, 1500) as usize],
        _ => {
            let n = rng.range(400, 900) as u32;
            total.set(n);
            t.params = (0..n).map(|_| (String::new(), Some(id(rng)))).collect()
        }
    }
    t
}

/// One small edit that makes a near-copy: equal to the original except for
/// one detail somewhere inside, so that "equal value" has to be decided on the
/// whole value (every string, every option, every id, the order of members).
fn micro_edit(rng: &mut Rng, cfg: &TabCfg, near: u32, t: &mut PType) {
    let flip_opt = |o: &mut Option<String>| {
        *o = match o.take() {
            None => Some(String::new()),
            Some(s) if s.is_empty() => None,
            Some(_) => Some(String::new()),
        }
    };
    let bump = |x: &mut u32, rng: &mut Rng| {
        *x = match rng.below(4) {
            0 => x.wrapping_add(1),
            1 => x.wrapping_add(1 << 31),
            2 => x.wrapping_add(0x6000_0000),
            _ => x.wrapping_sub(1),
        }
    };
    // collect the fields reachable for an edit
    let mut fields: Vec<&mut PField> = Vec::new();
    let mut variants_len = 0;
    match &mut t.def {
        PDef::Composite(fs) => fields.extend(fs.iter_mut()),
        PDef::Variant(vs) => {
            variants_len = vs.len();
            for v in vs.iter_mut() {
                fields.extend(v.fields.iter_mut());
            }
        }
        _ => {}
    }
    // the same path, one segment spelled as a raw identifier (or not)
    if !t.path.is_empty() && rng.permille(60) {
        let k = rng.usize_below(t.path.len());
        let seg = &mut t.path[k];
        if let Some(rest) = seg.strip_prefix("r#") {
            *seg = rest.to_string();
        } else {
            seg.insert_str(0, "r#");
        }
        return;
    }
    // a variant of one string that differs only in white space
    if rng.permille(120) {
        let spaced = |x: &mut String, rng: &mut Rng| {
            if x.contains(' ') && rng.permille(500) {
                *x = x.replacen(' ', "", 1);
            } else {
                let at = if x.is_empty() { 0 } else { rng.usize_below(x.chars().count() + 1) };
                let byte = x.char_indices().nth(at).map(|c| c.0).unwrap_or(x.len());
                x.insert(byte, ' ');
            }
        };
        let mut targets: Vec<&mut String> = Vec::new();
        for f in fields.iter_mut() {
            if let Some(n) = f.name.as_mut() {
                targets.push(n);
            }
            if let Some(n) = f.type_name.as_mut() {
                targets.push(n);
            }
        }
        if !targets.is_empty() {
            let k = rng.usize_below(targets.len());
            spaced(targets[k], rng);
            return;
        }
    }
    let choice = rng.below(16);
    if !fields.is_empty() && choice < 6 {
        let k = rng.usize_below(fields.len());
        let f = &mut fields[k];
        match choice {
            0 => flip_opt(&mut f.name),
            1 => flip_opt(&mut f.type_name),
            2 => f.docs.push(text(rng, &cfg.strs)),
            3 => bump(&mut f.ty, rng),
            4 => f.name = Some(text(rng, &cfg.strs)),
            _ => f.type_name = Some(text(rng, &cfg.strs)),
        }
        return;
    }
    drop(fields);
    if variants_len > 0 && choice < 11 {
        if let PDef::Variant(vs) = &mut t.def {
            let k = rng.usize_below(vs.len());
            match choice {
                6 => vs[k].docs.push(text(rng, &cfg.strs)),
                7 => vs[k].index = vs[k].index.wrapping_add(1),
                8 => vs[k].name.push('_'),
                9 if vs.len() >= 2 => {
                    // the same variants in another order
                    let j = (k + 1) % vs.len();
                    vs.swap(k, j);
                }
                _ => vs[k].fields.push(PField { name: None, ty: 0, type_name: None, docs: vec![] }),
            }
        }
        return;
    }
    match rng.below(9) {
        0 => t.docs.push(text(rng, &cfg.strs)),
        1 => t.path.push(text(rng, &cfg.strs)),
        // the original path becomes a proper suffix / the empty path
        2 => t.path.insert(0, text(rng, &cfg.strs)),
        3 => t.path.clear(),
        // same name and parameters, another definition
        4 => t.def = gen_ptype(rng, &cfg.strs, near, cfg.big_ids).def,
        5 => {
            if let Some(p) = t.params.first_mut() {
                p.1 = match p.1 {
                    Some(x) => Some(x.wrapping_add(1)),
                    None => Some(0),
                };
            } else {
                t.params.push((text(rng, &cfg.strs), Some(0)));
            }
        }
        6 => match &mut t.def {
            PDef::Sequence(x) | PDef::Compact(x) | PDef::Array(_, x) => bump(x, rng),
            PDef::BitSeq(a, b) => std::mem::swap(a, b),
            PDef::Tuple(ts) if !ts.is_empty() => {
                let k = rng.usize_below(ts.len());
                bump(&mut ts[k], rng)
            }
            PDef::Primitive(p) => *p = (*p + 1) % 15,
            _ => t.docs.push(String::new()),
        },
        7 => {
            if let PDef::Array(n, _) = &mut t.def {
                *n = n.wrapping_add(1);
            } else {
                t.docs.insert(0, String::new());
            }
        }
        _ => t.params.push((text(rng, &cfg.strs), None)),
    }
}

pub fn generate(rng: &mut Rng) -> TabScenario {
    let cfg = TabCfg {
        pool_size: *rng.pick(&[1u8, 2, 3, 5, 8, 16, 40]),
        clients: rng.range(1, 4) as u8,
        ops: *rng.pick(&[1u16, 3, 8, 20, 50, 120, 200]),
        strs: StrCfg {
            odd: *rng.pick(&[0, 50, 300]),
            long: *rng.pick(&[0, 0, 5, 30]),
            empty: *rng.pick(&[0, 50, 300]),
        },
        fresh: *rng.pick(&[0, 50, 300]),
        finish_rate: *rng.pick(&[5, 30, 100]),
        big_ids: *rng.pick(&[0, 0, 20, 200]),
    };
    let near = cfg.pool_size as u32 + 4;
    let mut pool_v: Vec<PType> = Vec::new();
    for _ in 0..cfg.pool_size {
        // some pool members are near-copies of each other: equal except for
        // one detail, so that "equal value" is decided on the whole value
        if !pool_v.is_empty() && rng.permille(400) {
            let mut t = rng.pick(&pool_v).clone();
            micro_edit(rng, &cfg, near, &mut t);
            pool_v.push(t);
        } else {
            pool_v.push(gen_ptype(rng, &cfg.strs, near, cfg.big_ids));
        }
    }
    let n_ops = rng.range(1, cfg.ops as u64);
    let mut ops = Vec::new();
    let disciplined = rng.permille(300);
    for _ in 0..n_ops {
        let client = rng.below(cfg.clients as u64) as u8;
        if disciplined {
            let k = rng.below(cfg.pool_size as u64) as u8;
            let op = match rng.weighted(&[45, 25, 10, 12, 8]) {
                0 => TabOp::RegisterDisciplined(k),
                1 => TabOp::RegisterSelfRef(k),
                2 => TabOp::NextId,
                3 => TabOp::Get(rng.below(near as u64) as u32),
                _ => TabOp::Finish,
            };
            ops.push((client, op));
            continue;
        }
        let op = match rng.weighted(&[40, 8, 10, 10, 12, 15, 0]) {
            0 if rng.permille(cfg.fresh) => {
                TabOp::RegisterFresh(gen_ptype(rng, &cfg.strs, near, cfg.big_ids))
            }
            0 => TabOp::Register(rng.below(cfg.pool_size as u64) as u8),
            1 => TabOp::RegisterFresh(gen_ptype(rng, &cfg.strs, near, cfg.big_ids)),
            2 => TabOp::NextId,
            3 => TabOp::Announce,
            4 => TabOp::RegisterAnnounced(rng.below(cfg.pool_size as u64) as u8),
            _ => TabOp::Get(match rng.below(6) {
                0 => u32::MAX,
                1 => rng.below(3) as u32 + near,
                _ => rng.below(near as u64) as u32,
            }),
        };
        ops.push((client, op));
        if rng.permille(cfg.finish_rate) {
            ops.push((client, TabOp::Finish));
        }
    }
    // a few runs take the table across size thresholds: bursts of tiny values
    // in the middle of the script, then the script goes on (duplicates, get,
    // self-references and finish on a large table)
    if rng.permille(30) {
        // (rarely past 2^16 values: the width an index type might be narrowed to)
        let n = if rng.permille(25) { 80_000 } else { *rng.pick(&[200u32, 300, 300, 1100, 1100, 1100, 20000]) };
        let at = rng.usize_below(ops.len() + 1);
        ops.insert(at, (0, TabOp::RegisterBurst(n)));
        if rng.permille(500) {
            let at2 = rng.usize_below(ops.len() + 1);
            ops.insert(at2, (0, TabOp::RegisterBurst(rng.range(1, 300) as u32)));
        }
    }
    ops.push((0, TabOp::Finish));
    let interner_kind = rng.below(4) as u8;
    let n_iops = rng.range(1, cfg.ops as u64);
    let interner_ops = (0..n_iops)
        .map(|_| {
            let k = rng.below(cfg.pool_size as u64) as u8;
            match rng.weighted(&[45, 20, 25, 10]) {
                0 => IntOp::Intern(k),
                1 => IntOp::Get(k),
                2 => IntOp::Resolve(k),
                _ => IntOp::Elements,
            }
        })
        .collect();
    let interner_ops: Vec<IntOp> = interner_ops;
    let interner_faults = if interner_kind == 3 {
        (0..rng.range(1, 4))
            .map(|_| (rng.below(interner_ops.len() as u64) as u16, rng.below(12) as u16))
            .collect()
    } else {
        vec![]
    };
    TabScenario { cfg, pool: pool_v, ops, interner_kind, interner_ops, disciplined, interner_faults }
}

// ---------------------------------------------------------------------------
// execution
// ---------------------------------------------------------------------------

#[derive(Default)]
pub struct TabResult {
    pub scenario_hash: u64,
    pub log_hash: u64,
    pub nontrivial: bool,
    pub finished: Vec<PortableRegistry>,
}

/// The reference model: a list without duplicates.
struct Model<T> {
    v: Vec<T>,
    /// acceleration only: positions by hash, so that tables with tens of
    /// thousands of values stay cheap; the answer is still "the first equal
    /// element of the list"
    by_hash: std::collections::BTreeMap<u64, Vec<usize>>,
    hasher: fn(&T) -> u64,
}

impl<T: PartialEq + Clone> Model<T> {
    fn new(hasher: fn(&T) -> u64) -> Self {
        Model { v: Vec::new(), by_hash: Default::default(), hasher }
    }
    fn insert(&mut self, x: &T) -> (bool, usize) {
        match self.find(x) {
            Some(i) => (false, i),
            None => {
                self.v.push(x.clone());
                let i = self.v.len() - 1;
                self.by_hash.entry((self.hasher)(x)).or_default().push(i);
                (true, i)
            }
        }
    }
    fn find(&self, x: &T) -> Option<usize> {
        self.by_hash.get(&(self.hasher)(x))?.iter().copied().find(|&i| self.v[i] == *x)
    }
}

fn with_announced(base: &PType, announced: u32) -> PType {
    let mut t = base.clone();
    let f = PField { name: Some("me".into()), ty: announced, type_name: None, docs: vec![] };
    match &mut t.def {
        PDef::Composite(fs) => fs.push(f),
        PDef::Variant(vs) => vs.push(PVariant {
            name: "Me".into(),
            fields: vec![f],
            index: 255,
            docs: vec![],
        }),
        PDef::Tuple(ts) => ts.push(announced),
        PDef::Sequence(x) | PDef::Array(_, x) | PDef::Compact(x) => *x = announced,
        PDef::BitSeq(_, b) => *b = announced,
        PDef::Primitive(_) => t.params.push(("SelfRef".into(), Some(announced))),
    }
    t
}

fn run_builder(scn: &TabScenario, mask: Mask, res: &mut TabResult) -> Check {
    let mut b = PortableRegistryBuilder::new();
    let mut model: Model<PType> = Model::new(|t| hash_of(t));
    let mut announced = vec![None::<u32>; 256];
    let mut dup_after_unrelated = false;
    // ids the builder has returned so far (disciplined runs)
    let mut handed: Vec<u32> = Vec::new();
    let mut burst: u32 = 1_000_000;
    for (k, (client, op)) in scn.ops.iter().enumerate() {
        probe("events.builder_call");
        let register = |b: &mut PortableRegistryBuilder,
                            model: &mut Model<PType>,
                            v: &PType,
                            what: &str|
         -> Check {
            let before = b.next_type_id();
            if before as usize != model.v.len() {
                fail(mask, "C12", "builder.next_type_id", || {
                    format!("op {}: next_type_id() = {}, model has {}", k, before, model.v.len())
                })?;
            }
            let got = b.register_type(v.to_lib());
            let (inserted, idx) = model.insert(v);
            core::log_u64(got as u64);
            if got as usize != idx {
                // the same observation, read as C05 reads it: equal values share
                // an id, different values never do
                if inserted {
                    if (got as usize) < model.v.len() - 1 {
                        fail(mask, "C05", "builder.distinct_values_share_id", || {
                            format!(
                                "op {} ({}): a value that was never registered got the id {} of a different value",
                                k, what, got
                            )
                        })?;
                    }
                } else {
                    fail(mask, "C05", "builder.equal_value_got_another_id", || {
                        format!("op {} ({}): a value registered as {} was registered again and got {}", k, what, idx, got)
                    })?;
                }
                fail(mask, "C12", "builder.register_index", || {
                    format!(
                        "op {} ({}): register_type returned {}, a duplicate-free list gives {} (inserted: {})",
                        k, what, got, idx, inserted
                    )
                })?;
            }
            if inserted && got != before {
                fail(mask, "C12", "builder.new_value_gets_announced_id", || {
                    format!("op {}: new value got {}, next_type_id() had announced {}", k, got, before)
                })?;
            }
            if !inserted {
                probe("reach.builder_duplicate");
                if idx + 1 < model.v.len() {
                    probe("reach.builder_duplicate_after_unrelated_inserts");
                }
            }
            Ok(())
        };
        match op {
            TabOp::Register(i) => {
                let v = &scn.pool[*i as usize % scn.pool.len()];
                let known = model.find(v);
                register(&mut b, &mut model, v, "pool")?;
                if let Some(i) = known {
                    if i + 1 < model.v.len() {
                        dup_after_unrelated = true;
                    }
                }
            }
            TabOp::RegisterFresh(v) => register(&mut b, &mut model, v, "fresh")?,
            TabOp::NextId => {
                let got = b.next_type_id();
                core::log_u64(got as u64);
                if got as usize != model.v.len() {
                    fail(mask, "C12", "builder.next_type_id", || {
                        format!("op {}: next_type_id() = {}, model has {}", k, got, model.v.len())
                    })?;
                }
            }
            TabOp::Announce => {
                announced[*client as usize] = Some(b.next_type_id());
            }
            TabOp::RegisterAnnounced(i) => {
                let a = announced[*client as usize].unwrap_or_else(|| b.next_type_id());
                let v = with_announced(&scn.pool[*i as usize % scn.pool.len()], a);
                let existed = model.find(&v).is_some();
                let will_be = model.v.len() as u32;
                register(&mut b, &mut model, &v, "announced")?;
                if a == will_be && !existed {
                    probe("reach.builder_self_reference_through_next_type_id");
                }
                if existed {
                    probe("reach.builder_self_reference_deduplicated_to_older_index");
                }
            }
            TabOp::RegisterDisciplined(i) | TabOp::RegisterSelfRef(i) => {
                let base = &scn.pool[*i as usize % scn.pool.len()];
                let n_handed = handed.len();
                let mut v = if n_handed == 0 {
                    PType { path: base.path.clone(), params: vec![], def: PDef::Primitive(0), docs: base.docs.clone() }
                } else {
                    base.map_ids(&mut |x| handed[x as usize % n_handed])
                };
                if matches!(op, TabOp::RegisterSelfRef(_)) {
                    let a = b.next_type_id();
                    v = with_announced(&v, a);
                    probe("reach.builder_self_reference_protocol");
                }
                register(&mut b, &mut model, &v, "disciplined")?;
                // what the builder returned is what the client may mention later
                let id = model.find(&v).expect("just registered") as u32;
                if !handed.contains(&id) {
                    handed.push(id);
                }
            }
            TabOp::RegisterBurst(n) => {
                for j in 0..*n {
                    burst += 1;
                    let v = PType {
                        path: vec![],
                        params: vec![],
                        def: PDef::Array(if j % 7 == 3 { burst.wrapping_sub(1) } else { burst }, 0),
                        docs: vec![],
                    };
                    register(&mut b, &mut model, &v, "burst")?;
                }
                crate::core::probe_max("max.builder_table_entries", model.v.len() as u64);
                for t in [256usize, 1000, 16384, 65536] {
                    if model.v.len() > t {
                        probe(match t {
                            256 => "reach.builder_table_above_256",
                            1000 => "reach.builder_table_above_1000",
                            16384 => "reach.builder_table_above_16384",
                            _ => "reach.builder_table_above_65536",
                        });
                    }
                }
            }
            TabOp::Get(id) => {
                let got = b.get(*id).map(PType::from_lib);
                let want = model.v.get(*id as usize).cloned();
                if got != want {
                    fail(mask, "C12", "builder.get", || {
                        format!("op {}: get({}) = {:?}, model {:?}", k, id, got, want)
                    })?;
                }
                if *id as usize >= model.v.len() {
                    probe("reach.builder_get_beyond_end");
                }
            }
            TabOp::Finish => {
                let out = b.finish();
                let p = PReg::from_lib(&out);
                let want = PReg {
                    types: model.v.iter().enumerate().map(|(i, t)| (i as u32, t.clone())).collect(),
                };
                core::log_u64(p.len() as u64);
                // C05, on the produced registry: no id label is carried by two entries
                {
                    let mut labels: Vec<u32> = p.types.iter().map(|x| x.0).collect();
                    labels.sort_unstable();
                    if let Some(w) = labels.windows(2).find(|w| w[0] == w[1]) {
                        fail(mask, "C05", "builder.finish_two_entries_share_an_id", || {
                            format!("op {}: finish() lists two entries labelled {}", k, w[0])
                        })?;
                    }
                }
                if let Some(i) = p.first_not_dense() {
                    fail(mask, "C01", "dense.builder_finish", || {
                        format!("op {}: position {} carries id {}", k, i, p.types[i].0)
                    })?;
                }
                if p != want {
                    fail(mask, "C12", "builder.finish_lists_values_at_indices", || {
                        format!(
                            "op {}: finish() has {} entries, model {}; first difference at {:?}",
                            k,
                            p.len(),
                            want.len(),
                            p.types.iter().zip(&want.types).position(|(a, b)| a != b)
                        )
                    })?;
                }
                // clients that only ever mentioned ids the builder returned or
                // announced must get a closed registry
                if scn.disciplined {
                    if let Some((i, id)) = p.first_dangling() {
                        fail(mask, "C01", "closed.builder_finish", || {
                            format!(
                                "op {}: entry {} mentions id {} but finish() has {} entries, although every client followed the next_type_id protocol",
                                k, i, id, p.len()
                            )
                        })?;
                    }
                    probe("checks.builder_finish_closed_for_disciplined_clients");
                }
                // resolve agrees with position
                for (i, (id, t)) in p.types.iter().enumerate() {
                    if *id as usize == i && out.resolve(*id).map(PType::from_lib).as_ref() != Some(t) {
                        fail(mask, "C01", "resolve.builder_finish", || {
                            format!("op {}: resolve({}) is not entry {}", k, id, i)
                        })?;
                    }
                }
                probe("events.builder_finish");
                res.finished.push(out);
            }
        }
    }
    res.nontrivial = dup_after_unrelated && model.v.len() >= 2;
    Ok(())
}

fn run_interner<T: Ord + Clone + std::fmt::Debug>(
    values: &[T],
    ops: &[IntOp],
    mask: Mask,
    hasher: fn(&T) -> u64,
) -> Check {
    // the donor knows every pool value, value k at symbol k (as far as the
    // pool is itself duplicate-free; equal pool values share the first index)
    let mut donor: Interner<T> = Interner::new();
    let mut donor_model: Model<T> = Model::new(hasher);
    for v in values {
        donor.intern_or_get(v.clone());
        donor_model.insert(v);
    }
    let mut it: Interner<T> = Interner::new();
    let mut model: Model<T> = Model::new(hasher);
    for (k, op) in ops.iter().enumerate() {
        probe("events.interner_call");
        match op {
            IntOp::Intern(i) => {
                let v = &values[*i as usize % values.len()];
                let (inserted, sym) = it.intern_or_get(v.clone());
                let id = sym.into_untracked().id;
                let (m_ins, m_idx) = model.insert(v);
                core::log_u64(id as u64);
                if inserted != m_ins || id as usize != m_idx {
                    fail(mask, "C12", "interner.intern_or_get", || {
                        format!(
                            "op {}: intern_or_get({:?}) = ({}, {}), model ({}, {})",
                            k, v, inserted, id, m_ins, m_idx
                        )
                    })?;
                }
                if !m_ins && m_idx + 1 < model.v.len() {
                    probe("reach.interner_duplicate_after_unrelated_inserts");
                }
            }
            IntOp::Get(i) => {
                let v = &values[*i as usize % values.len()];
                let got = it.get(v).map(|s| s.into_untracked().id as usize);
                let want = model.find(v);
                if got != want {
                    fail(mask, "C12", "interner.get", || {
                        format!("op {}: get({:?}) = {:?}, model {:?}", k, v, got, want)
                    })?;
                }
                if want.is_none() {
                    probe("reach.interner_get_unknown");
                }
            }
            IntOp::Resolve(i) => {
                let v = &values[*i as usize % values.len()];
                let idx = donor_model.find(v).unwrap();
                let Some(sym) = donor.get(v) else {
                    fail(mask, "C12", "interner.get_of_interned_value", || {
                        format!("op {}: get({:?}) is none on an interner that interned it as #{}", k, v, idx)
                    })?;
                    continue;
                };
                let donor_id = donor.get(v).map(|s| s.into_untracked().id as usize);
                if donor_id != Some(idx) {
                    fail(mask, "C12", "interner.get_of_interned_value", || {
                        format!("op {}: get({:?}) = {:?} on an interner that interned it as #{}", k, v, donor_id, idx)
                    })?;
                }
                let got = it.resolve(sym).cloned();
                let want = model.v.get(idx).cloned();
                if got != want {
                    fail(mask, "C12", "interner.resolve", || {
                        format!("op {}: resolve(#{}) = {:?}, model {:?}", k, idx, got, want)
                    })?;
                }
                if idx >= model.v.len() {
                    probe("reach.interner_resolve_out_of_range");
                }
            }
            IntOp::Elements => {
                if it.elements() != &model.v[..] {
                    fail(mask, "C12", "interner.elements", || {
                        format!("op {}: elements() differs from the model", k)
                    })?;
                }
            }
        }
    }
    if it.elements() != &model.v[..] {
        fail(mask, "C12", "interner.elements", || "final elements() differs".to_string())?;
    }
    Ok(())
}

// --- an element type whose clone / cmp can unwind (fault injection) -------------

thread_local! {
    /// calls of clone / cmp left before the injected unwind; None = disarmed
    static KEY_FAULT: std::cell::Cell<Option<u32>> = const { std::cell::Cell::new(None) };
}

struct KeyUnwind;

fn key_fault_point() {
    KEY_FAULT.with(|f| {
        if let Some(n) = f.get() {
            if n == 0 {
                f.set(None);
                std::panic::resume_unwind(Box::new(KeyUnwind));
            }
            f.set(Some(n - 1));
        }
    });
}

#[derive(Debug, PartialEq, Eq)]
struct FaultyKey(u32);

impl Clone for FaultyKey {
    fn clone(&self) -> Self {
        key_fault_point();
        FaultyKey(self.0)
    }
}
impl PartialOrd for FaultyKey {
    fn partial_cmp(&self, o: &Self) -> Option<std::cmp::Ordering> {
        Some(self.cmp(o))
    }
}
impl Ord for FaultyKey {
    fn cmp(&self, o: &Self) -> std::cmp::Ordering {
        key_fault_point();
        self.0.cmp(&o.0)
    }
}

/// Interner script in the fault-injecting configuration.  An operation whose
/// clone / compare call unwinds is caught by the caller; the oracle is relaxed
/// narrowly: such an operation either happened or did not (the table equals
/// the model with or without the value appended), never something in between;
/// everything after it is compared call by call as usual.
fn run_interner_faulted(scn: &TabScenario, mask: Mask) -> Check {
    let values: Vec<u32> = (0..scn.pool.len() as u32).map(|i| i * 7 % 23).collect();
    let mut it: Interner<FaultyKey> = Interner::new();
    let mut model: Vec<u32> = Vec::new();
    let raw = |it: &Interner<FaultyKey>| -> Vec<u32> { it.elements().iter().map(|k| k.0).collect() };
    for (k, op) in scn.interner_ops.iter().enumerate() {
        let fault = scn.interner_faults.iter().find(|f| f.0 as usize == k).map(|f| f.1 as u32);
        let idx = |i: &u8| values[*i as usize % values.len()];
        let outcome = {
            KEY_FAULT.with(|f| f.set(fault));
            let r = std::panic::catch_unwind(std::panic::AssertUnwindSafe(|| match op {
                IntOp::Intern(i) => {
                    let (ins, sym) = it.intern_or_get(FaultyKey(idx(i)));
                    Some((ins, sym.into_untracked().id as usize))
                }
                IntOp::Get(i) => it.get(&FaultyKey(idx(i))).map(|s| (false, s.into_untracked().id as usize)),
                IntOp::Resolve(_) | IntOp::Elements => None,
            }));
            KEY_FAULT.with(|f| f.set(None));
            r
        };
        match outcome {
            Err(payload) => {
                if !payload.is::<KeyUnwind>() {
                    std::panic::resume_unwind(payload);
                }
                probe("fault.unwind_in_key_clone_or_cmp.fired");
                // happened, or did not: nothing in between
                let now = raw(&it);
                let v = match op {
                    IntOp::Intern(i) | IntOp::Get(i) | IntOp::Resolve(i) => idx(i),
                    IntOp::Elements => 0,
                };
                let mut with = model.clone();
                if !with.contains(&v) {
                    with.push(v);
                }
                if now == model {
                    probe("reach.unwound_operation_had_no_effect");
                } else if now == with && matches!(op, IntOp::Intern(_)) {
                    model = with;
                    probe("reach.unwound_operation_took_effect");
                } else {
                    fail(mask, "C12", "interner.torn_by_unwind", || {
                        format!(
                            "op {} ({:?}) unwound out of an element's clone/cmp: elements() = {:?}, before the call {:?}",
                            k, op, now, model
                        )
                    })?;
                    return Ok(());
                }
            }
            Ok(got) => match op {
                IntOp::Intern(i) => {
                    let v = idx(i);
                    let want = match model.iter().position(|x| *x == v) {
                        Some(p) => (false, p),
                        None => {
                            model.push(v);
                            (true, model.len() - 1)
                        }
                    };
                    if got != Some(want) {
                        fail(mask, "C12", "interner.intern_or_get_after_unwind", || {
                            format!("op {}: intern_or_get({}) = {:?}, model {:?}", k, v, got, want)
                        })?;
                    }
                }
                IntOp::Get(i) => {
                    let v = idx(i);
                    let want = model.iter().position(|x| *x == v);
                    if got.map(|g| g.1) != want {
                        fail(mask, "C12", "interner.get_after_unwind", || {
                            format!("op {}: get({}) = {:?}, model {:?}", k, v, got.map(|g| g.1), want)
                        })?;
                    }
                }
                _ => {}
            },
        }
        if raw(&it) != model {
            fail(mask, "C12", "interner.elements_after_unwind", || {
                format!("op {}: elements() = {:?}, model {:?}", k, raw(&it), model)
            })?;
        }
    }
    probe("checks.interner_fault_injecting_configuration");
    Ok(())
}

pub fn execute(scn: &TabScenario, mask: Mask) -> Result<TabResult, Violation> {
    core::log_reset();
    let mut res = TabResult { scenario_hash: hash_of(scn), ..Default::default() };
    let r = core::catch(|| -> Check {
        run_builder(scn, mask, &mut res)?;
        match scn.interner_kind {
            0 => {
                let vals: Vec<u8> = (0..scn.pool.len()).map(|i| (i * 37 % 11) as u8).collect();
                run_interner(&vals, &scn.interner_ops, mask, |x| *x as u64)
            }
            1 => {
                let vals: Vec<String> = scn
                    .pool
                    .iter()
                    .map(|t| t.path.first().cloned().unwrap_or_default())
                    .collect();
                run_interner(&vals, &scn.interner_ops, mask, |x| hash_of(x))
            }
            2 => {
                let vals: Vec<_> = scn.pool.iter().map(|t| t.to_lib()).collect();
                run_interner(&vals, &scn.interner_ops, mask, |x| hash_of(&PType::from_lib(x)))
            }
            _ => run_interner_faulted(scn, mask),
        }
    });
    res.log_hash = core::log_value();
    match r {
        Ok(Ok(())) => Ok(res),
        Ok(Err(v)) => Err(v),
        // a panicking builder or interner call is C12's business ("the
        // observable results equal those of a duplicate-free list"); under
        // another property the run just ends
        Err(msg) if mask.has("C12") => Err(Violation {
            property: "C12".to_string(),
            clause: core::panic_clause(&msg),
            detail: format!("library code panicked: {}", msg),
        case: None,
        }),
        Err(_) => {
            probe("builder_panicked_under_a_check_that_does_not_answer_for_it");
            Ok(res)
        }
    }
}
