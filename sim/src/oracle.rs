//! Oracles shared by the engines: the positional comparison of a compile-time
//! definition with a portable one (C02), the well-formedness monitor (C01) and
//! the reference model of `retain` (C10).

use crate::core::{fail, Check, Mask};
use crate::ptype::{PReg, PType};
use scale_info::{
    form::{MetaForm, PortableForm},
    Field, MetaType, Type, TypeDef, TypeParameter, Variant,
};
use std::collections::BTreeMap;

/// A mismatch found by the positional comparison: (clause, detail).
pub type Mismatch = (&'static str, String);

/// Collector of the positional comparison.  The walk never stops at a
/// mismatch: it records the first one and keeps pairing what can still be
/// paired, so that the checks of *other* properties (which need the complete
/// set of reachable identities) are not starved by a mismatch that only C02
/// cares about.  `structural` is set when positions could not be aligned
/// (different lengths, kinds or presence): the set of pairs is then incomplete.
#[derive(Default)]
pub struct Cmp {
    pub pairs: Vec<(MetaType, u32)>,
    pub first: Option<Mismatch>,
    pub structural: bool,
}

impl Cmp {
    fn note(&mut self, clause: &'static str, detail: impl FnOnce() -> String) {
        if self.first.is_none() {
            self.first = Some((clause, detail()));
        }
    }
    fn structural(&mut self, clause: &'static str, detail: impl FnOnce() -> String) {
        self.structural = true;
        self.note(clause, detail);
    }
    pub fn result(&self) -> Result<(), Mismatch> {
        match &self.first {
            Some(m) => Err(m.clone()),
            None => Ok(()),
        }
    }
}

fn strs_eq(m: &[&'static str], p: &[String]) -> bool {
    m.len() == p.len() && m.iter().zip(p).all(|(a, b)| *a == b.as_str())
}

fn opt_eq(m: &Option<&'static str>, p: &Option<String>) -> bool {
    match (m, p) {
        (None, None) => true,
        (Some(a), Some(b)) => *a == b.as_str(),
        _ => false,
    }
}

pub fn cmp_field(m: &Field<MetaForm>, p: &Field<PortableForm>, c: &mut Cmp) {
    if !opt_eq(&m.name, &p.name) {
        c.note("field.name", || format!("{:?} vs {:?}", m.name, p.name));
    }
    if !opt_eq(&m.type_name, &p.type_name) {
        c.note("field.type_name", || format!("{:?} vs {:?}", m.type_name, p.type_name));
    }
    if !strs_eq(&m.docs, &p.docs) {
        c.note("field.docs", || format!("{:?} vs {:?}", m.docs, p.docs));
    }
    c.pairs.push((m.ty, p.ty.id));
}

pub fn cmp_fields(m: &[Field<MetaForm>], p: &[Field<PortableForm>], c: &mut Cmp) {
    if m.len() != p.len() {
        // positions cannot be aligned: pairing them anyway would blame ids
        // for what is a length mismatch
        c.structural("fields.len", || format!("{} vs {}", m.len(), p.len()));
        return;
    }
    for (a, b) in m.iter().zip(p) {
        cmp_field(a, b, c);
    }
}

pub fn cmp_variant(m: &Variant<MetaForm>, p: &Variant<PortableForm>, c: &mut Cmp) {
    if m.name != p.name.as_str() {
        c.note("variant.name", || format!("{:?} vs {:?}", m.name, p.name));
    }
    if m.index != p.index {
        c.note("variant.index", || format!("{} vs {}", m.index, p.index));
    }
    if !strs_eq(&m.docs, &p.docs) {
        c.note("variant.docs", || format!("{:?} vs {:?}", m.docs, p.docs));
    }
    cmp_fields(&m.fields, &p.fields, c);
}

pub fn cmp_param(m: &TypeParameter<MetaForm>, p: &TypeParameter<PortableForm>, c: &mut Cmp) {
    if m.name != p.name.as_str() {
        c.note("param.name", || format!("{:?} vs {:?}", m.name, p.name));
    }
    match (&m.ty, &p.ty) {
        (None, None) => {}
        (Some(a), Some(b)) => c.pairs.push((*a, b.id)),
        _ => c.structural("param.presence", || {
            format!("{:?}: {:?} vs {:?}", m.name, m.ty.is_some(), p.ty.is_some())
        }),
    }
}

pub fn cmp_def(m: &TypeDef<MetaForm>, p: &TypeDef<PortableForm>, c: &mut Cmp) {
    match (m, p) {
        (TypeDef::Composite(a), TypeDef::Composite(b)) => cmp_fields(&a.fields, &b.fields, c),
        (TypeDef::Variant(a), TypeDef::Variant(b)) => {
            if a.variants.len() != b.variants.len() {
                c.structural("variants.len", || {
                    format!("{} vs {}", a.variants.len(), b.variants.len())
                });
            } else {
                for (x, y) in a.variants.iter().zip(&b.variants) {
                    cmp_variant(x, y, c);
                }
            }
        }
        (TypeDef::Sequence(a), TypeDef::Sequence(b)) => {
            c.pairs.push((a.type_param, b.type_param.id));
        }
        (TypeDef::Array(a), TypeDef::Array(b)) => {
            if a.len != b.len {
                c.note("array.len", || format!("{} vs {}", a.len, b.len));
            }
            c.pairs.push((a.type_param, b.type_param.id));
        }
        (TypeDef::Tuple(a), TypeDef::Tuple(b)) => {
            if a.fields.len() != b.fields.len() {
                c.structural("tuple.arity", || format!("{} vs {}", a.fields.len(), b.fields.len()));
            } else {
                for (x, y) in a.fields.iter().zip(&b.fields) {
                    c.pairs.push((*x, y.id));
                }
            }
        }
        (TypeDef::Primitive(a), TypeDef::Primitive(b)) => {
            if a != b {
                c.note("primitive", || format!("{:?} vs {:?}", a, b));
            }
        }
        (TypeDef::Compact(a), TypeDef::Compact(b)) => {
            c.pairs.push((a.type_param, b.type_param.id));
        }
        (TypeDef::BitSequence(a), TypeDef::BitSequence(b)) => {
            c.pairs.push((a.bit_store_type, b.bit_store_type.id));
            c.pairs.push((a.bit_order_type, b.bit_order_type.id));
        }
        _ => c.structural("def.kind", || format!("{} vs {}", kind_of(m), kind_of(p))),
    }
}

pub fn kind_of<F: scale_info::form::Form>(d: &TypeDef<F>) -> &'static str {
    match d {
        TypeDef::Composite(_) => "composite",
        TypeDef::Variant(_) => "variant",
        TypeDef::Sequence(_) => "sequence",
        TypeDef::Array(_) => "array",
        TypeDef::Tuple(_) => "tuple",
        TypeDef::Primitive(_) => "primitive",
        TypeDef::Compact(_) => "compact",
        TypeDef::BitSequence(_) => "bitsequence",
    }
}

/// Member-by-member comparison of `type_info()` with a portable definition;
/// every position where the compile-time side holds a `MetaType` yields a pair
/// (that meta type, the id at the same position on the portable side).
pub fn cmp_type(m: &Type<MetaForm>, p: &Type<PortableForm>, c: &mut Cmp) {
    if !strs_eq(&m.path.segments, &p.path.segments) {
        c.note("path", || format!("{:?} vs {:?}", m.path.segments, p.path.segments));
    }
    if m.type_params.len() != p.type_params.len() {
        c.structural("params.len", || {
            format!("{} vs {}", m.type_params.len(), p.type_params.len())
        });
    } else {
        for (a, b) in m.type_params.iter().zip(&p.type_params) {
            cmp_param(a, b, c);
        }
    }
    if !strs_eq(&m.docs, &p.docs) {
        c.note("type.docs", || format!("{:?} vs {:?}", m.docs, p.docs));
    }
    cmp_def(&m.type_def, &p.type_def, c);
}

// ---------------------------------------------------------------------------
// C01 monitor
// ---------------------------------------------------------------------------

/// Dense and closed, evaluated on the harness mirror and cross-checked with
/// `resolve` on the library value.
pub fn check_well_formed(
    mask: Mask,
    origin: &'static str,
    lib: &scale_info::PortableRegistry,
    p: &PReg,
) -> Check {
    if let Some(i) = p.first_not_dense() {
        fail(mask, "C01", &format!("dense.{}", origin), || {
            format!("entry at position {} carries id {}", i, p.types[i].0)
        })?;
    }
    if let Some((i, id)) = p.first_dangling() {
        fail(mask, "C01", &format!("closed.{}", origin), || {
            format!("entry {} mentions id {} but the registry has {} entries", i, id, p.len())
        })?;
    }
    // resolve(id) returns exactly the type labelled id; resolve(len) is none.
    // A panicking resolve is C01's (and C14's) business, not the caller's.
    let probe_resolve = crate::core::catch(|| {
        for (id, _) in &p.types {
            let _ = lib.resolve(*id);
        }
        let _ = lib.resolve(p.len() as u32);
    });
    if let Err(msg) = probe_resolve {
        fail(mask, "C01", &format!("resolve_panicked.{}", origin), || msg.clone())?;
        return Ok(());
    }
    for (i, (id, t)) in p.types.iter().enumerate() {
        match lib.resolve(*id) {
            Some(r) if *id as usize == i => {
                if PType::from_lib(r) != *t {
                    fail(mask, "C01", &format!("resolve.{}", origin), || {
                        format!("resolve({}) is not the entry labelled {}", id, id)
                    })?;
                }
            }
            Some(_) | None => {
                if *id as usize == i {
                    fail(mask, "C01", &format!("resolve.{}", origin), || {
                        format!("resolve({}) is none for a listed entry", id)
                    })?;
                }
            }
        }
    }
    if lib.resolve(p.len() as u32).is_some() {
        fail(mask, "C01", &format!("resolve_end.{}", origin), || {
            format!("resolve({}) is some on a registry of that length", p.len())
        })?;
    }
    Ok(())
}

// ---------------------------------------------------------------------------
// C10 reference model
// ---------------------------------------------------------------------------

/// Check the result of `retain` against the reachability model.  `before` must
/// be well-formed; `accepted` is the set of ids the filter accepts.
pub fn check_retain(
    mask: Mask,
    before: &PReg,
    accepted: &[u32],
    after: &PReg,
    map: &BTreeMap<u32, u32>,
) -> Check {
    let closure = before.reach(accepted.iter().copied());
    let keys: std::collections::BTreeSet<u32> = map.keys().copied().collect();
    if keys != closure {
        let missing: Vec<_> = closure.difference(&keys).take(5).collect();
        let extra: Vec<_> = keys.difference(&closure).take(5).collect();
        fail(mask, "C10", "keys_are_reachable_set", || {
            format!(
                "accepted {:?}: reachable but not retained {:?}; retained but not reachable {:?}",
                &accepted[..accepted.len().min(8)],
                missing,
                extra
            )
        })?;
    }
    let n = map.len();
    let mut seen = vec![false; n];
    for (&old, &new) in map {
        if (new as usize) >= n || seen[new as usize] {
            fail(mask, "C10", "bijection", || {
                format!("old id {} maps to new id {} (n = {})", old, new, n)
            })?;
            return Ok(());
        }
        seen[new as usize] = true;
    }
    if after.len() != n {
        fail(mask, "C10", "result_len", || {
            format!("map has {} entries, registry has {}", n, after.len())
        })?;
        return Ok(());
    }
    if !after.well_formed() {
        fail(mask, "C10", "result_well_formed", || {
            format!(
                "not dense at {:?} / dangling {:?}",
                after.first_not_dense(),
                after.first_dangling()
            )
        })?;
    }
    // every retained entry equals its original with each referenced id
    // replaced through the map and nothing else changed
    for (&old, &new) in map {
        if old as usize >= before.len() {
            fail(mask, "C10", "key_in_range", || format!("key {} out of range", old))?;
            continue;
        }
        let mut missing = None;
        let expect = before.types[old as usize].1.map_ids(&mut |x| match map.get(&x) {
            Some(y) => *y,
            None => {
                missing = Some(x);
                u32::MAX
            }
        });
        if let Some(x) = missing {
            fail(mask, "C10", "referenced_id_unmapped", || {
                format!("old entry {} mentions {} which the map lacks", old, x)
            })?;
            continue;
        }
        let (got_id, got) = &after.types[new as usize];
        if *got_id != new {
            fail(mask, "C10", "entry_id", || {
                format!("entry at {} carries id {}", new, got_id)
            })?;
        }
        if *got != expect {
            fail(mask, "C10", "entry_is_renamed_original", || {
                format!("old {} -> new {}: expected {:?}, got {:?}", old, new, expect, got)
            })?;
        }
    }
    Ok(())
}
