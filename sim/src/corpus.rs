//! Fixed corpus of static types compiled from the current tree: built-ins the
//! run-time graphs cannot reach by themselves and `#[derive(TypeInfo)]`
//! definitions of the shapes real users register.  The corpus is not how "all
//! programs" is sampled (it is finite); it makes histories contain realistic
//! shapes next to the generated `Node` graphs.

#![allow(dead_code)]

use crate::universe::Tx;
#[cfg(feature = "full")]
use bitvec::{
    order::{Lsb0, Msb0},
    vec::BitVec,
};
use scale_info::{MetaType, TypeInfo};
use std::{
    borrow::Cow,
    collections::{BTreeMap, BTreeSet, BinaryHeap, VecDeque},
    marker::PhantomData,
    num::{NonZeroI128, NonZeroU16, NonZeroU32, NonZeroU8},
    ops::{Range, RangeInclusive},
    rc::Rc,
    sync::Arc,
    time::Duration,
};

#[derive(TypeInfo)]
pub struct Unit;

#[derive(TypeInfo)]
pub struct Named {
    pub a: u8,
    pub b: String,
    pub c: Vec<u32>,
}

#[derive(TypeInfo)]
pub struct Unnamed(pub u8, pub bool, pub [u8; 4]);

#[derive(TypeInfo)]
pub enum CLike {
    A,
    B = 5,
    C,
}

#[derive(TypeInfo, scale::Encode)]
pub enum Mixed {
    #[codec(index = 7)]
    A(u8),
    B {
        x: u32,
        y: Option<Box<Mixed>>,
    },
    C,
    #[codec(skip)]
    D(u64),
}

/// A recursive list.
#[derive(TypeInfo)]
pub struct Rec {
    /// the tail
    pub next: Option<Box<Rec>>,
    pub v: u8,
}

#[derive(TypeInfo)]
pub enum MutA {
    Leaf,
    B(Box<MutB>),
}

#[derive(TypeInfo)]
pub enum MutB {
    A(Vec<MutA>),
    Stop(u8),
    Both(Rc<MutA>, Arc<MutB>),
}

#[derive(TypeInfo)]
pub struct Gen<T> {
    pub t: T,
    pub v: Vec<T>,
    pub p: PhantomData<T>,
}

#[derive(TypeInfo)]
#[scale_info(skip_type_params(T))]
pub struct SkipParam<T> {
    pub p: PhantomData<T>,
    pub x: u8,
}

#[derive(TypeInfo)]
pub struct Tree<T> {
    pub l: Option<Box<Tree<T>>>,
    pub r: Option<Box<Tree<T>>>,
    pub v: T,
}

#[derive(TypeInfo)]
pub struct Pair<A, B> {
    pub a: A,
    pub b: B,
    pub ab: (A, B),
    pub m: BTreeMap<A, B>,
}

#[derive(TypeInfo, scale::Encode)]
pub struct WithCompact {
    #[codec(compact)]
    pub a: u32,
    #[codec(compact)]
    pub b: u128,
    #[codec(skip)]
    pub c: u8,
    pub d: u8,
}

#[derive(TypeInfo)]
pub struct Lifetimes<'a> {
    pub s: &'a str,
    pub b: &'a [u8],
    pub r: &'a Rec,
}

#[derive(TypeInfo)]
pub struct ConstGen<const N: usize> {
    pub a: [u8; N],
}

#[cfg(feature = "full")]
#[derive(TypeInfo)]
pub struct Bits {
    pub a: BitVec<u8, Lsb0>,
    pub b: BitVec<u16, Msb0>,
}

#[derive(TypeInfo)]
#[scale_info(replace_segment("corpus", "replaced"))]
pub struct Replaced(pub u8);

#[derive(TypeInfo)]
#[scale_info(capture_docs = "always")]
/// Always documented.
pub enum Documented {
    /// first
    /// second line
    One,
    /// with a field
    Two {
        /// the field
        f: u8,
    },
}

/// An uninhabited type.
#[derive(TypeInfo)]
pub enum Never {}

pub mod dup_a {
    #[derive(scale_info::TypeInfo)]
    pub struct Same {
        pub a: u8,
    }
}
pub mod dup_b {
    #[derive(scale_info::TypeInfo)]
    pub struct Same {
        pub a: u8,
    }
}
pub mod l1 {
    pub mod l2 {
        pub mod l3 {
            pub mod l4 {
                pub mod l5 {
                    pub mod l6 {
                        pub mod r#type {
                            #[derive(scale_info::TypeInfo)]
                            pub struct FarAway(pub super::super::super::super::super::super::super::Never);
                        }
                    }
                }
            }
        }
    }
}

#[derive(TypeInfo)]
pub enum Disc {
    A = 3,
    B = 200,
    C = 255,
}

#[derive(TypeInfo)]
pub struct Wrappers {
    pub a: Box<Named>,
    pub b: Rc<Named>,
    pub c: Arc<Named>,
    pub d: &'static Named,
    pub e: Vec<Named>,
    pub f: VecDeque<Named>,
    pub g: &'static [Named],
    pub h: Cow<'static, str>,
    pub i: BTreeSet<u8>,
    pub j: BinaryHeap<u8>,
    pub k: Range<u32>,
    pub l: RangeInclusive<u32>,
    pub m: PhantomData<Named>,
    pub n: (u8, PhantomData<u8>, u16),
}

// Deeply nested built-in types: one root, hundreds of nested registrations.
macro_rules! nest {
    ($name:ident, $outer:ident, $inner:ty) => {
        pub type $name = $outer<$outer<$outer<$outer<$outer<$outer<$outer<$outer<$inner>>>>>>>>;
    };
}
nest!(O8, Option, u8);
nest!(O64, Option, O8x7);
pub type O8x7 = Option<Option<Option<Option<Option<Option<Option<O8>>>>>>>; // 15
// explicit powers: 8 * 8 * ... via repeated application
nest!(V8, Vec, u16);
pub type V16 = Vec<Vec<Vec<Vec<Vec<Vec<Vec<Vec<V8>>>>>>>>;
pub type V32 = Vec<Vec<Vec<Vec<Vec<Vec<Vec<Vec<Vec<Vec<Vec<Vec<Vec<Vec<Vec<Vec<V16>>>>>>>>>>>>>>>>;
macro_rules! nest32 {
    ($name:ident, $c:ident, $inner:ty) => {
        pub type $name = $c<$c<$c<$c<$c<$c<$c<$c<$c<$c<$c<$c<$c<$c<$c<$c<$c<$c<$c<$c<$c<$c<$c<$c<$c<$c<$c<$c<$c<$c<$c<$c<$inner>>>>>>>>>>>>>>>>>>>>>>>>>>>>>>>>;
    };
}
nest32!(V64, Vec, V32);
nest32!(V96, Vec, V64);
nest32!(V128, Vec, V96);
nest32!(V160, Vec, V128);
nest32!(P32, Option, i8);
nest32!(P64, Option, P32);
nest32!(P96, Option, P64);
nest32!(P128, Option, P96);
nest32!(P160, Option, P128);
nest32!(P192, Option, P160);
nest32!(P224, Option, P192);
nest32!(P256, Option, P224);
nest32!(P288, Option, P256);
nest32!(P320, Option, P288);
nest32!(P352, Option, P320);
nest32!(P384, Option, P352);
nest32!(P416, Option, P384);
nest32!(P448, Option, P416);
nest32!(P480, Option, P448);
nest32!(P512, Option, P480);
nest32!(P544, Option, P512);
nest32!(P576, Option, P544);

/// Corpus entries from this index on are heavy (hundreds of entries per
/// registration) and are drawn rarely.
pub fn heavy_from() -> usize {
    CORPUS.iter().position(|e| e.name == "Vec^160<u16>").expect("heavy entries present")
}

/// Two distinct types with the same name in the same function: identical
/// path, identical `core::any::type_name`, different definitions.
fn homonym(which: usize) -> MetaType {
    let a = {
        #[derive(TypeInfo)]
        struct Settings {
            #[allow(dead_code)]
            a: u8,
        }
        MetaType::new::<Settings>()
    };
    let b = {
        #[derive(TypeInfo)]
        struct Settings {
            #[allow(dead_code)]
            b: u16,
        }
        MetaType::new::<Settings>()
    };
    let c = {
        #[derive(TypeInfo)]
        struct Settings {
            #[allow(dead_code)]
            a: u8,
        }
        MetaType::new::<Settings>()
    };
    [a, b, c][which]
}

pub struct CorpusEntry {
    pub name: &'static str,
    pub meta: fn() -> MetaType,
    /// the exact Rust type as an expression of the identity model
    pub tx: fn() -> Tx,
}

fn named(n: &'static str) -> Tx {
    Tx::Named(n)
}
fn app(c: &'static str, a: Vec<Tx>) -> Tx {
    Tx::App(c, a)
}

macro_rules! entry {
    ($name:literal, $t:ty, $tx:expr) => {
        CorpusEntry {
            name: $name,
            meta: || MetaType::new::<$t>(),
            tx: || $tx,
        }
    };
}

type T20 = (
    u8,
    u8,
    u8,
    u8,
    u8,
    u8,
    u8,
    u8,
    u8,
    u8,
    u8,
    u8,
    u8,
    u8,
    u8,
    u8,
    u8,
    u8,
    u8,
    u16,
);

pub static CORPUS: &[CorpusEntry] = &[
    // primitives
    entry!("bool", bool, named("bool")),
    entry!("char", char, named("char")),
    entry!("u8", u8, named("u8")),
    entry!("u16", u16, named("u16")),
    entry!("u32", u32, named("u32")),
    entry!("u64", u64, named("u64")),
    entry!("u128", u128, named("u128")),
    entry!("i8", i8, named("i8")),
    entry!("i16", i16, named("i16")),
    entry!("i32", i32, named("i32")),
    entry!("i64", i64, named("i64")),
    entry!("i128", i128, named("i128")),
    // strings and their aliases
    entry!("str", str, named("str")),
    entry!("String", String, named("String")),
    entry!("&str", &'static str, app("Ref", vec![named("str")])),
    entry!("Box<str>", Box<str>, app("Box", vec![named("str")])),
    entry!("&String", &'static String, app("Ref", vec![named("String")])),
    entry!("Cow<str>", Cow<'static, str>, app("Cow", vec![named("str")])),
    // sequences of primitives and their aliases
    entry!("Vec<u8>", Vec<u8>, app("Vec", vec![named("u8")])),
    entry!("[u8]", [u8], app("Slice", vec![named("u8")])),
    entry!("VecDeque<u8>", VecDeque<u8>, app("VecDeque", vec![named("u8")])),
    entry!("&[u8]", &'static [u8], app("Ref", vec![app("Slice", vec![named("u8")])])),
    entry!("Box<Vec<u8>>", Box<Vec<u8>>, app("Box", vec![app("Vec", vec![named("u8")])])),
    entry!("Vec<String>", Vec<String>, app("Vec", vec![named("String")])),
    entry!("Vec<&str>", Vec<&'static str>, app("Vec", vec![app("Ref", vec![named("str")])])),
    entry!("[u8;0]", [u8; 0], app("Array:0", vec![named("u8")])),
    entry!("[u8;32]", [u8; 32], app("Array:32", vec![named("u8")])),
    entry!("[u16;32]", [u16; 32], app("Array:32", vec![named("u16")])),
    // phantoms
    entry!("PhantomData<u8>", PhantomData<u8>, app("PhantomData", vec![named("u8")])),
    entry!("PhantomData<String>", PhantomData<String>, app("PhantomData", vec![named("String")])),
    entry!("PhantomData<()>", PhantomData<()>, app("PhantomData", vec![app("Tuple", vec![])])),
    // tuples
    entry!("()", (), app("Tuple", vec![])),
    entry!("(u8,)", (u8,), app("Tuple", vec![named("u8")])),
    entry!("(u8,u16)", (u8, u16), app("Tuple", vec![named("u8"), named("u16")])),
    entry!("(u16,u8)", (u16, u8), app("Tuple", vec![named("u16"), named("u8")])),
    entry!("T20", T20, named("T20")),
    // other std
    entry!("Option<u8>", Option<u8>, app("Option", vec![named("u8")])),
    entry!("Option<Box<u8>>", Option<Box<u8>>, app("Option", vec![app("Box", vec![named("u8")])])),
    entry!("Result<u8,String>", Result<u8, String>, app("Result", vec![named("u8"), named("String")])),
    entry!("BTreeMap<u8,String>", BTreeMap<u8, String>, app("BTreeMap", vec![named("u8"), named("String")])),
    entry!("NonZeroU8", NonZeroU8, named("NonZeroU8")),
    entry!("NonZeroU16", NonZeroU16, named("NonZeroU16")),
    entry!("NonZeroU32", NonZeroU32, named("NonZeroU32")),
    entry!("NonZeroI128", NonZeroI128, named("NonZeroI128")),
    entry!("Duration", Duration, named("Duration")),
    entry!("Compact<u32>", scale::Compact<u32>, app("Compact", vec![named("u32")])),
    entry!("Compact<u128>", scale::Compact<u128>, app("Compact", vec![named("u128")])),
    #[cfg(feature = "full")]
    entry!("BitVec<u8,Lsb0>", BitVec<u8, Lsb0>, app("BitVec", vec![named("u8"), named("Lsb0")])),
    #[cfg(feature = "full")]
    entry!("BitVec<u8,Msb0>", BitVec<u8, Msb0>, app("BitVec", vec![named("u8"), named("Msb0")])),
    #[cfg(feature = "full")]
    entry!("BitVec<u16,Lsb0>", BitVec<u16, Lsb0>, app("BitVec", vec![named("u16"), named("Lsb0")])),
    #[cfg(feature = "full")]
    entry!("BitVec<u32,Msb0>", BitVec<u32, Msb0>, app("BitVec", vec![named("u32"), named("Msb0")])),
    #[cfg(feature = "full")]
    entry!("BitVec<u64,Lsb0>", BitVec<u64, Lsb0>, app("BitVec", vec![named("u64"), named("Lsb0")])),
    #[cfg(feature = "full")]
    entry!("Lsb0", Lsb0, named("Lsb0")),
    #[cfg(feature = "full")]
    entry!("Msb0", Msb0, named("Msb0")),
    // derived
    entry!("Unit", Unit, named("Unit")),
    entry!("Named", Named, named("Named")),
    entry!("Unnamed", Unnamed, named("Unnamed")),
    entry!("CLike", CLike, named("CLike")),
    entry!("Mixed", Mixed, named("Mixed")),
    entry!("Rec", Rec, named("Rec")),
    entry!("Box<Rec>", Box<Rec>, app("Box", vec![named("Rec")])),
    entry!("MutA", MutA, named("MutA")),
    entry!("MutB", MutB, named("MutB")),
    entry!("Gen<u8>", Gen<u8>, app("Gen", vec![named("u8")])),
    entry!("Gen<Gen<u8>>", Gen<Gen<u8>>, app("Gen", vec![app("Gen", vec![named("u8")])])),
    entry!("Gen<Box<u8>>", Gen<Box<u8>>, app("Gen", vec![app("Box", vec![named("u8")])])),
    entry!("SkipParam<Unit>", SkipParam<Unit>, app("SkipParam", vec![named("Unit")])),
    entry!("SkipParam<u8>", SkipParam<u8>, app("SkipParam", vec![named("u8")])),
    entry!("Tree<u8>", Tree<u8>, app("Tree", vec![named("u8")])),
    entry!("Tree<Rec>", Tree<Rec>, app("Tree", vec![named("Rec")])),
    entry!("Pair<u8,Rec>", Pair<u8, Rec>, app("Pair", vec![named("u8"), named("Rec")])),
    entry!("WithCompact", WithCompact, named("WithCompact")),
    entry!("Lifetimes", Lifetimes<'static>, named("Lifetimes")),
    entry!("ConstGen<4>", ConstGen<4>, named("ConstGen<4>")),
    entry!("ConstGen<5>", ConstGen<5>, named("ConstGen<5>")),
    #[cfg(feature = "full")]
    entry!("Bits", Bits, named("Bits")),
    entry!("Replaced", Replaced, named("Replaced")),
    entry!("Documented", Documented, named("Documented")),
    entry!("Wrappers", Wrappers, named("Wrappers")),
    CorpusEntry { name: "Settings#a", meta: || homonym(0), tx: || named("Settings#a") },
    CorpusEntry { name: "Settings#b", meta: || homonym(1), tx: || named("Settings#b") },
    CorpusEntry { name: "Settings#c (same definition as #a)", meta: || homonym(2), tx: || named("Settings#c") },
    entry!("Never", Never, named("Never")),
    entry!("dup_a::Same", dup_a::Same, named("dup_a::Same")),
    entry!("dup_b::Same", dup_b::Same, named("dup_b::Same")),
    entry!("FarAway", l1::l2::l3::l4::l5::l6::r#type::FarAway, named("FarAway")),
    entry!("Disc", Disc, named("Disc")),
    entry!("Arc<str>", Arc<str>, app("Arc", vec![named("str")])),
    entry!("Rc<[u8]>", Rc<[u8]>, app("Rc", vec![app("Slice", vec![named("u8")])])),
    entry!("Box<[String]>", Box<[String]>, app("Box", vec![app("Slice", vec![named("String")])])),
    entry!("PhantomData<fn(u8)->u8>", PhantomData<fn(u8) -> u8>, app("PhantomData", vec![named("fn(u8)->u8")])),
    entry!("Option<Never>", Option<Never>, app("Option", vec![named("Never")])),
    entry!("[Never;0]", [Never; 0], app("Array:0", vec![named("Never")])),
    entry!("Compact<Compact-free u64>", scale::Compact<u64>, app("Compact", vec![named("u64")])),
    entry!("Vec<PhantomData<u8>>", Vec<PhantomData<u8>>, app("Vec", vec![app("PhantomData", vec![named("u8")])])),
    // heavy entries last (see heavy_from)
    entry!("Vec^160<u16>", V160, named("V160")),
    entry!("Option^576<i8>", P576, named("P576")),
];
