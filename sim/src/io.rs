//! The simulated I/O seams: a `Read` with short reads, bounded bursts of
//! `Interrupted` and an injectable error at a byte offset; a `Write` that
//! accepts a few bytes per call and is sometimes interrupted; an `Input` that
//! answers `remaining_len()` with `None`.

use serde::{Deserialize, Serialize};
use std::io::{self, ErrorKind, Read, Write};

#[derive(Clone, Copy, PartialEq, Eq, Debug, Hash, Serialize, Deserialize)]
pub enum ErrKind {
    UnexpectedEof,
    ConnectionReset,
    WouldBlock,
    Other,
    InvalidData,
    TimedOut,
}

impl ErrKind {
    pub const ALL: [ErrKind; 6] = [
        ErrKind::UnexpectedEof,
        ErrKind::ConnectionReset,
        ErrKind::WouldBlock,
        ErrKind::Other,
        ErrKind::InvalidData,
        ErrKind::TimedOut,
    ];
    pub fn to_io(self) -> io::Error {
        let k = match self {
            ErrKind::UnexpectedEof => ErrorKind::UnexpectedEof,
            ErrKind::ConnectionReset => ErrorKind::ConnectionReset,
            ErrKind::WouldBlock => ErrorKind::WouldBlock,
            ErrKind::Other => ErrorKind::Other,
            ErrKind::InvalidData => ErrorKind::InvalidData,
            ErrKind::TimedOut => ErrorKind::TimedOut,
        };
        io::Error::new(k, "injected")
    }
}

/// Deterministic behaviour script for the simulated reader / writer: the
/// k-th call may transfer at most `chunks[k % len]` bytes; before the k-th
/// transfer `eintr[k % len]` interruptions are returned (bounded bursts).
#[derive(Clone, PartialEq, Eq, Debug, Hash, Serialize, Deserialize)]
pub struct IoScript {
    pub chunks: Vec<u16>,
    pub eintr: Vec<u8>,
}

impl IoScript {
    pub fn plain() -> Self {
        IoScript { chunks: vec![u16::MAX], eintr: vec![0] }
    }
}

pub struct SimRead<'a> {
    pub data: &'a [u8],
    pub pos: usize,
    script: &'a IoScript,
    call: usize,
    pending_eintr: u8,
    armed_call: bool,
    /// fail once `pos` reaches this offset
    pub err_at: Option<(usize, ErrKind)>,
    pub interrupts: u64,
    pub short_reads: u64,
    pub errors_returned: u64,
}

impl<'a> SimRead<'a> {
    pub fn new(data: &'a [u8], script: &'a IoScript, err_at: Option<(usize, ErrKind)>) -> Self {
        SimRead {
            data,
            pos: 0,
            script,
            call: 0,
            pending_eintr: 0,
            armed_call: false,
            err_at,
            interrupts: 0,
            short_reads: 0,
            errors_returned: 0,
        }
    }
}

impl Read for SimRead<'_> {
    fn read(&mut self, buf: &mut [u8]) -> io::Result<usize> {
        if buf.is_empty() {
            return Ok(0);
        }
        if !self.armed_call {
            self.armed_call = true;
            self.pending_eintr = self.script.eintr[self.call % self.script.eintr.len()].min(3);
        }
        if self.pending_eintr > 0 {
            self.pending_eintr -= 1;
            self.interrupts += 1;
            return Err(io::Error::new(ErrorKind::Interrupted, "injected EINTR"));
        }
        let mut limit = self.data.len();
        if let Some((at, kind)) = self.err_at {
            if self.pos >= at {
                self.errors_returned += 1;
                return Err(kind.to_io());
            }
            limit = limit.min(at);
        }
        let chunk = (self.script.chunks[self.call % self.script.chunks.len()] as usize).max(1);
        self.call += 1;
        self.armed_call = false;
        let n = buf.len().min(chunk).min(limit - self.pos);
        if n < buf.len() && n > 0 {
            self.short_reads += 1;
        }
        buf[..n].copy_from_slice(&self.data[self.pos..self.pos + n]);
        self.pos += n;
        Ok(n) // 0 at end of data: EOF
    }
}

pub struct SimWrite<'a> {
    pub out: Vec<u8>,
    script: &'a IoScript,
    call: usize,
    pending_eintr: u8,
    armed_call: bool,
    pub interrupts: u64,
    pub short_writes: u64,
}

impl<'a> SimWrite<'a> {
    pub fn new(script: &'a IoScript) -> Self {
        SimWrite {
            out: Vec::new(),
            script,
            call: 0,
            pending_eintr: 0,
            armed_call: false,
            interrupts: 0,
            short_writes: 0,
        }
    }
}

impl Write for SimWrite<'_> {
    fn write(&mut self, buf: &[u8]) -> io::Result<usize> {
        if buf.is_empty() {
            return Ok(0);
        }
        if !self.armed_call {
            self.armed_call = true;
            self.pending_eintr = self.script.eintr[self.call % self.script.eintr.len()].min(3);
        }
        if self.pending_eintr > 0 {
            self.pending_eintr -= 1;
            self.interrupts += 1;
            return Err(io::Error::new(ErrorKind::Interrupted, "injected EINTR"));
        }
        let chunk = (self.script.chunks[self.call % self.script.chunks.len()] as usize).max(1);
        self.call += 1;
        self.armed_call = false;
        let n = buf.len().min(chunk);
        if n < buf.len() {
            self.short_writes += 1;
        }
        self.out.extend_from_slice(&buf[..n]);
        Ok(n)
    }
    fn flush(&mut self) -> io::Result<()> {
        Ok(())
    }
}

/// An `Input` that knows its length but does not tell.
pub struct NoLenInput<'a> {
    pub data: &'a [u8],
    pub pos: usize,
}

impl scale::Input for NoLenInput<'_> {
    fn remaining_len(&mut self) -> Result<Option<usize>, scale::Error> {
        Ok(None)
    }
    fn read(&mut self, into: &mut [u8]) -> Result<(), scale::Error> {
        if into.len() > self.data.len() - self.pos {
            return Err("Not enough data to fill buffer".into());
        }
        into.copy_from_slice(&self.data[self.pos..self.pos + into.len()]);
        self.pos += into.len();
        Ok(())
    }
}
