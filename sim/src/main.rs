#![recursion_limit = "2048"]
//! `sim`: deterministic simulation with fault injection for scale-info.
//!
//!   sim check <C01|..> <quick|thorough>     supervisor: shards runs over worker processes
//!   sim worker ...                          one single-threaded worker (internal)
//!   sim replay <file>                       re-execute a replay file; exit 1 if it reproduces
//!   sim loghashes <engine> <seed> <from> <to> <step> <offset>   determinism self-test helper
//!   sim dump <engine> <seed> <index>        print the scenario of one run
//!
//! Exit codes: 0 held, 1 violation (with a `VIOLATION property=.. replay=..` line),
//! 2 harness error.

mod alloc;
mod core;
mod corpus;
mod io;
mod layout;
mod minimise;
mod oracle;
mod pool;
mod ptype;
mod reggen;
mod regsim;
mod rng;
mod tablesim;
mod universe;
mod wiresim;

use crate::core::{Mask, Violation};
use crate::minimise::Scenario;
use serde::{Deserialize, Serialize};
use serde_json::{json, Value};
use std::collections::{BTreeMap, BTreeSet};
use std::io::Write;
use std::path::{Path, PathBuf};
use std::process::{Command, Stdio};
use std::time::{Duration, Instant};

#[global_allocator]
static GLOBAL: alloc::Counting = alloc::Counting;

const HARNESS_VERSION: u32 = 2;
/// Which build of the simulator this is: "full" links scale-info with
/// std,derive,serde,decode,bit-vec,docs; "min" with std,derive,serde,decode.
const VARIANT: &str = if cfg!(feature = "full") { "full" } else { "min" };

fn variant_exe(variant: &str) -> PathBuf {
    if variant == VARIANT {
        return std::env::current_exe().expect("current exe");
    }
    let dir = if variant == "min" { "target-min" } else { "target" };
    verif_root().join("sim").join(dir).join("release").join("sim")
}
/// Root of the verification tree: the directory that holds `sim/`, `evidence/`,
/// `replays/`, `known_findings.jsonl` - found from the executable's own
/// location (`<root>/sim/<target dir>/release/sim`), so that a snapshot of
/// /verif runs entirely inside itself.
fn verif_root() -> PathBuf {
    if let Ok(r) = std::env::var("VERIF_ROOT") {
        if !r.is_empty() {
            return PathBuf::from(r);
        }
    }
    if let Ok(exe) = std::env::current_exe() {
        if let Some(root) = exe.ancestors().nth(4) {
            if root.join("sim").is_dir() {
                return root.to_path_buf();
            }
        }
    }
    PathBuf::from("/verif")
}

fn engine_id(e: &str) -> u64 {
    match e {
        "regsim" => 1,
        "tablesim" => 2,
        "wiresim" | "sweep" => 3,
        _ => 9,
    }
}

// ---------------------------------------------------------------------------
// plan: which engines serve which property, how many runs per tier
// ---------------------------------------------------------------------------

struct Plan {
    level: &'static str,
    /// (engine, quick runs, thorough runs)
    engines: Vec<(&'static str, u64, u64)>,
    rule: &'static str,
}

fn plan(prop: &str) -> Option<Plan> {
    let p = match prop {
        "C01" => Plan {
            level: "exploration",
            engines: vec![("regsim", 160_000, 16_000_000), ("regsim@min", 40_000, 4_000_000), ("tablesim", 100_000, 8_000_000), ("wiresim", 40_000, 1_500_000)],
            rule: "regsim runs are generated from the run seed (type graph over 32 node types and a fixed corpus, client scripts, simulated network order, consumer chain); a run is non-trivial when its final registry is non-empty and it had at least two deliveries or a non-empty consumer chain; tablesim runs count when a duplicate arrived after unrelated insertions; distinct = distinct scenario hashes among the non-trivial runs",
        },
        "C02" => Plan {
            level: "exploration",
            engines: vec![("regsim", 160_000, 16_000_000), ("regsim@min", 40_000, 4_000_000)],
            rule: "non-trivial: at least two deliveries and the published registry contains a cycle or some delivered reference went through an alias wrapper; distinct = distinct scenario hashes among those",
        },
        "C05" => Plan {
            level: "exploration",
            engines: vec![("regsim", 160_000, 16_000_000), ("regsim@min", 40_000, 4_000_000), ("tablesim", 60_000, 4_000_000), ("tablesim@min", 20_000, 1_000_000)],
            rule: "regsim: non-trivial when there were at least two deliveries and either an identity that was already present was delivered again or a reference went through an alias wrapper; tablesim (the run-time builder's side of 'equal values share an id, different values never do'): non-trivial when a duplicate value arrived after unrelated insertions; distinct = distinct scenario hashes among those",
        },
        "C10" => Plan {
            level: "exploration",
            engines: vec![("regsim", 160_000, 16_000_000), ("regsim@min", 40_000, 4_000_000), ("wiresim", 30_000, 2_000_000)],
            rule: "regsim: non-trivial when the consumer chain contained a retain that kept some but not all entries, distinct = distinct scenario hashes among those; wiresim: every well-formed frame (random registries of all eight definition kinds, publications, builder outputs, up to 6000 entries) is decoded and then retained with a drawn filter, counted when some but not all entries were kept",
        },
        "C11" => Plan {
            level: "exploration",
            engines: vec![("regsim", 160_000, 16_000_000), ("regsim@min", 40_000, 4_000_000)],
            rule: "non-trivial: at least two deliveries and either the replica's delivery order differs from the owner's or (fault-injecting configuration, 15% of the runs) a type_info() call unwound in the middle of a registration; distinct = distinct scenario hashes among those",
        },
        "C12" => Plan {
            level: "exploration",
            engines: vec![("tablesim", 300_000, 30_000_000), ("tablesim@min", 60_000, 6_000_000)],
            rule: "a run interleaves client scripts on one builder and one interner; non-trivial: a duplicate value arrived after unrelated insertions and the table holds at least two values; distinct = distinct scenario hashes among those",
        },
        "C07" => Plan {
            level: "exploration",
            engines: vec![("wiresim", 80_000, 5_000_000), ("wiresim@min", 20_000, 1_000_000)],
            rule: "a run writes 1-3 registries (random well-formed and ill-formed ones incl. lean ones, bulk collections and up to 6000 entries, registry publications, builder outputs) back to back through a chunked writer and reads them through four reader kinds; counted: distinct non-empty encodings that went through the fault-free configuration",
        },
        "C14" => Plan {
            level: "fault_enumeration",
            engines: vec![("sweep", 96, 4_000), ("sweep@min", 32, 1_000), ("wiresim", 30_000, 2_000_000), ("wiresim@min", 10_000, 600_000)],
            rule: "sweep: for each frame of at most 2048 bytes every truncation point, every single-bit flip, an I/O error of 6 kinds at every offset and every targeted rewrite of every length / id / tag / option field, and on the JSON form of the same frame every single structural fault (18 replacement values at every node, deletion and renaming of every member, unknown and second-tag keys, array edits), every number token rewritten to 8 malformed / out-of-range numbers and every truncation of the text; wiresim: seeded sequences of 1-3 faults per case on multi-frame streams and on JSON text / JSON values; a case is non-trivial when its fault changed the bytes (for SCALE: inside a frame); distinct = distinct (scenario, case) pairs among those",
        },
        _ => return None,
    };
    Some(p)
}

// ---------------------------------------------------------------------------
// known findings
// ---------------------------------------------------------------------------

#[derive(Clone, Debug, Deserialize)]
struct Finding {
    status: String,
    property: String,
    #[serde(default)]
    clause: String,
    #[serde(default)]
    detail_contains: String,
    #[serde(default)]
    what: String,
}

fn load_findings() -> Vec<Finding> {
    let p = verif_root().join("known_findings.jsonl");
    let Ok(text) = std::fs::read_to_string(p) else { return vec![] };
    text.lines()
        .filter(|l| !l.trim().is_empty() && !l.trim_start().starts_with('#'))
        .filter_map(|l| serde_json::from_str::<Finding>(l).ok())
        .collect()
}

fn known<'a>(findings: &'a [Finding], v: &Violation) -> Option<&'a Finding> {
    findings.iter().find(|f| {
        f.status == "known"
            && f.property == v.property
            && f.clause == v.clause
            && (f.detail_contains.is_empty() || v.detail.contains(&f.detail_contains))
    })
}

// ---------------------------------------------------------------------------
// replay files
// ---------------------------------------------------------------------------

#[derive(Clone, Debug, Serialize, Deserialize)]
struct ReplayFile {
    harness_version: u32,
    property: String,
    clause: String,
    detail: String,
    verif_seed: u64,
    engine: String,
    run_index: u64,
    run_seed: u64,
    /// "violation" or "crash" (the worker process died or hung)
    kind: String,
    /// which build of the simulator recorded it ("full" or "min")
    #[serde(default = "default_variant")]
    variant: String,
    minimised: bool,
    minimiser_executions: u32,
    original_size: usize,
    size: usize,
    #[serde(flatten)]
    scenario: Option<Scenario>,
}

fn default_variant() -> String {
    "full".to_string()
}

fn replay_dir() -> PathBuf {
    match std::env::var("VERIF_REPLAY_DIR") {
        Ok(d) if !d.is_empty() => PathBuf::from(d),
        _ => verif_root().join("replays"),
    }
}

fn replay_path(prop: &str, run_seed: u64) -> PathBuf {
    let d = replay_dir();
    std::fs::create_dir_all(&d).ok();
    d.join(format!("{}-{:016x}.json", prop, run_seed))
}

fn gen_scenario(engine: &str, verif_seed: u64, index: u64) -> Result<Scenario, String> {
    let seed = rng::run_seed(verif_seed, engine_id(engine), index);
    let mut r = rng::Rng::new(seed);
    match engine {
        "regsim" => Ok(Scenario::Reg(reggen::generate(&mut r))),
        "tablesim" => Ok(Scenario::Tab(tablesim::generate(&mut r))),
        "wiresim" => wiresim::generate(&mut r).map(Scenario::Wire),
        "sweep" => {
            let s = wiresim::generate(&mut r)?;
            // the first frame small enough to sweep
            for f in &s.frames {
                if let Some(sw) = wiresim::sweep_scenario(f)? {
                    return Ok(Scenario::Wire(sw));
                }
            }
            Ok(Scenario::Wire(wiresim::WireScenario {
                frames: vec![],
                sentinel: vec![],
                writer: io::IoScript::plain(),
                readers: vec![],
                cases: vec![],
                keeps: vec![],
            }))
        }
        _ => Err(format!("unknown engine {}", engine)),
    }
}

// ---------------------------------------------------------------------------
// worker
// ---------------------------------------------------------------------------

#[derive(Default, Serialize, Deserialize)]
struct WorkerOut {
    runs: u64,
    events: u64,
    cases: u64,
    known_findings: Vec<String>,
    violation: Option<(Violation, String)>,
    probes: BTreeMap<String, u64>,
    triples: BTreeSet<(String, String, String)>,
    samples: Vec<Value>,
    wall_ms: u64,
    draws: u64,
    log_xor: u64,
}

fn write_hashes(dir: &Path, name: &str, k: u64, v: &[u64]) {
    let mut bytes = Vec::with_capacity(v.len() * 8);
    for x in v {
        bytes.extend_from_slice(&x.to_le_bytes());
    }
    std::fs::write(dir.join(format!("hash.{}.{}.bin", name, k)), bytes).expect("write hashes");
}

fn nontrivial_reg(prop: &str, flags: u32) -> bool {
    use regsim::*;
    let multi = flags & F_MULTI_EVENT != 0;
    match prop {
        "C01" => flags & F_NONEMPTY != 0 && (multi || flags & F_CHAIN != 0),
        "C02" => multi && flags & (F_HAS_CYCLE | F_HAS_ALIAS) != 0,
        "C05" => multi && flags & (F_REDELIVERY | F_HAS_ALIAS) != 0,
        "C10" => flags & F_RETAIN_PARTIAL != 0,
        "C11" => multi && flags & (F_REORDERED | F_FAULTED) != 0,
        _ => flags & F_NONEMPTY != 0,
    }
}

fn sample_of(s: &Scenario) -> Value {
    match s {
        Scenario::Reg(r) => json!({
            "engine": "regsim",
            "active_nodes": r.cfg.active,
            "clients": r.cfg.clients,
            "owner_deliveries": r.owner.iter().map(|d| format!(
                "c{} m{}{} {}", d.client, d.msg, if d.dup { " (dup)" } else { "" },
                match &d.req {
                    reggen::Req::Register(t) => format!("register {}", t.show()),
                    reggen::Req::RegisterMany(ts) => format!("register_types [{}]", ts.iter().map(|t| t.show()).collect::<Vec<_>>().join(", ")),
                    reggen::Req::Item(i) => format!("into_portable {}", match i {
                        reggen::ItemSpec::Field(_) => "Field", reggen::ItemSpec::Variant(_) => "Variant",
                        reggen::ItemSpec::Param(..) => "TypeParameter", reggen::ItemSpec::TypeOf(_) => "Type",
                        reggen::ItemSpec::Def(_) => "TypeDef", reggen::ItemSpec::Fields(_) => "Vec<Field>",
                        reggen::ItemSpec::Pallet{..} => "user Pallet struct" }),
                })).collect::<Vec<_>>(),
            "replica_order": r.replica.iter().map(|d| d.msg).collect::<Vec<_>>(),
            "chain": r.chain.iter().map(|c| match c {
                reggen::ChainStep::Retain(k) => match k { reggen::Keep::Bits(_) => "retain(bitset)".to_string(), o => format!("retain({:?})", o) },
                o => format!("{:?}", o) }).collect::<Vec<_>>(),
            "node0": serde_json::to_value(&r.nodes[0]).unwrap_or(Value::Null),
        }),
        Scenario::Tab(t) => json!({
            "engine": "tablesim",
            "pool_size": t.pool.len(),
            "ops": t.ops.iter().take(40).map(|(c, o)| format!("c{} {}", c, match o {
                tablesim::TabOp::RegisterFresh(_) => "RegisterFresh(..)".to_string(), o => format!("{:?}", o) })).collect::<Vec<_>>(),
            "interner_kind": t.interner_kind,
            "interner_ops": t.interner_ops.iter().take(40).map(|o| format!("{:?}", o)).collect::<Vec<_>>(),
        }),
        Scenario::Wire(w) => json!({
            "engine": "wiresim",
            "frames": w.frames.iter().map(|f| format!("{} types", f.types.len())).collect::<Vec<_>>(),
            "sentinel_len": w.sentinel.len(),
            "writer": serde_json::to_value(&w.writer).unwrap_or(Value::Null),
            "cases": w.cases.iter().take(12).map(|c| serde_json::to_value(c).unwrap_or(Value::Null)).collect::<Vec<_>>(),
            "n_cases": w.cases.len(),
        }),
    }
}

#[allow(clippy::too_many_arguments)]
fn worker(engine: &str, prop: &str, verif_seed: u64, from: u64, to: u64, step: u64, offset: u64, dir: &Path) -> i32 {
    core::install_panic_hook();
    let mask = Mask::of(prop).expect("known property");
    let findings = load_findings();
    let status = std::fs::OpenOptions::new()
        .create(true)
        .write(true)
        .truncate(true)
        .open(dir.join(format!("status.{}.{}", engine, offset)))
        .expect("status file");
    use std::os::unix::fs::FileExt;
    let t0 = Instant::now();
    let mut out = WorkerOut::default();
    let mut h_nontrivial: Vec<u64> = Vec::new();
    let mut h_order: Vec<u64> = Vec::new();
    let mut h_graph: Vec<u64> = Vec::new();
    let mut h_registry: Vec<u64> = Vec::new();
    let mut exit = 0;
    let mut i = from + offset;
    while i < to {
        let line = format!("{:>20} {:>20}\n", i, out.runs);
        let _ = status.write_at(line.as_bytes(), 0);
        let run_seed = rng::run_seed(verif_seed, engine_id(engine), i);
        let scn = match gen_scenario(engine, verif_seed, i) {
            Ok(s) => s,
            Err(msg) => {
                // library code panicked while frames were being materialised
                let v = Violation {
                    property: prop.to_string(),
                    clause: format!("materialise.{}", core::panic_clause(&msg)),
                    detail: msg,
                    case: None,
                };
                let path = replay_path(prop, run_seed);
                let rf = ReplayFile {
                    harness_version: HARNESS_VERSION,
                    property: v.property.clone(),
                    clause: v.clause.clone(),
                    detail: v.detail.clone(),
                    verif_seed,
                    engine: engine.to_string(),
                    run_index: i,
                    run_seed,
                    kind: "crash".into(),
                    variant: VARIANT.into(),
                    minimised: false,
                    minimiser_executions: 0,
                    original_size: 0,
                    size: 0,
                    scenario: None,
                };
                std::fs::write(&path, serde_json::to_vec_pretty(&rf).unwrap()).expect("write replay");
                println!("VIOLATION-AT {} property={} replay={}", i, prop, path.display());
                out.violation = Some((v, path.display().to_string()));
                exit = 1;
                break;
            }
        };
        out.runs += 1;
        let verdict: Option<Violation> = match &scn {
            Scenario::Reg(s) => match regsim::execute(s, mask) {
                Ok(r) => {
                    out.events += r.events;
                    out.log_xor ^= r.log_hash.rotate_left((i % 63) as u32);
                    if nontrivial_reg(prop, r.flags) {
                        h_nontrivial.push(r.scenario_hash);
                        if out.samples.len() < 2 {
                            out.samples.push(sample_of(&scn));
                        }
                    }
                    h_order.push(r.order_hash);
                    h_graph.push(r.graph_hash);
                    h_registry.push(r.registry_hash);
                    None
                }
                Err(v) => Some(v),
            },
            Scenario::Tab(s) => match tablesim::execute(s, mask) {
                Ok(r) => {
                    out.events += (s.ops.len() + s.interner_ops.len()) as u64;
                    out.log_xor ^= r.log_hash.rotate_left((i % 63) as u32);
                    if r.nontrivial {
                        h_nontrivial.push(r.scenario_hash);
                        if out.samples.len() < 2 {
                            out.samples.push(sample_of(&scn));
                        }
                    }
                    None
                }
                Err(v) => Some(v),
            },
            Scenario::Wire(s) => match wiresim::execute(s, mask) {
                Ok(r) => {
                    out.cases += r.cases;
                    out.events += r.cases + (s.frames.len() * s.readers.len()) as u64;
                    out.log_xor ^= r.log_hash.rotate_left((i % 63) as u32);
                    if prop == "C07" {
                        h_nontrivial.extend(r.frames_checked.iter().copied());
                    } else if prop == "C10" || prop == "C01" {
                        h_nontrivial.extend(r.retains_nontrivial.iter().copied());
                    } else {
                        h_nontrivial.extend(r.nontrivial_cases.iter().copied());
                    }
                    if out.samples.len() < 2 && !s.cases.is_empty() {
                        out.samples.push(sample_of(&scn));
                    }
                    out.triples.extend(r.triples);
                    None
                }
                Err(v) => Some(v),
            },
        };
        if let Some(v) = verdict {
            if let Some(f) = known(&findings, &v) {
                let line = format!("KNOWN-FINDING: property={} {}", v.property, f.what);
                if !out.known_findings.contains(&line) {
                    println!("{}", line);
                    out.known_findings.push(line);
                }
            } else {
                let mut tick = |n: u32| {
                    let line = format!("{:>20} {:>20} minimising {:>8}\n", i, out.runs, n);
                    let _ = status.write_at(line.as_bytes(), 0);
                };
                let path = report_violation(prop, verif_seed, engine, i, run_seed, &scn, &v, mask, &mut tick);
                out.violation = Some((v, path));
                exit = 1;
                break;
            }
        }
        i += step;
    }
    for (k, v) in core::take_probes() {
        out.probes.insert(k.to_string(), v);
    }
    out.wall_ms = t0.elapsed().as_millis() as u64;
    h_nontrivial.sort_unstable();
    h_nontrivial.dedup();
    write_hashes(dir, &format!("{}.nontrivial", engine), offset, &h_nontrivial);
    if engine == "regsim" {
        for (n, v) in [("order", &mut h_order), ("graph", &mut h_graph), ("registry", &mut h_registry)] {
            v.sort_unstable();
            v.dedup();
            write_hashes(dir, &format!("{}.{}", engine, n), offset, v);
        }
    }
    std::fs::write(
        dir.join(format!("result.{}.{}.json", engine, offset)),
        serde_json::to_vec(&out).expect("serialise worker result"),
    )
    .expect("write worker result");
    exit
}

#[allow(clippy::too_many_arguments)]
fn report_violation(
    prop: &str,
    verif_seed: u64,
    engine: &str,
    index: u64,
    run_seed: u64,
    scn: &Scenario,
    v: &Violation,
    mask: Mask,
    tick: &mut dyn FnMut(u32),
) -> String {
    let original_size = scn.size();
    let budget: u32 = std::env::var("VERIF_MIN_BUDGET").ok().and_then(|x| x.parse().ok()).unwrap_or(2000);
    let m = minimise::minimise(scn, v, mask, budget, tick);
    let path = replay_path(prop, run_seed);
    std::fs::create_dir_all(path.parent().unwrap()).ok();
    let rf = ReplayFile {
        harness_version: HARNESS_VERSION,
        property: m.violation.property.clone(),
        clause: m.violation.clause.clone(),
        detail: m.violation.detail.clone(),
        verif_seed,
        engine: engine.to_string(),
        run_index: index,
        run_seed,
        kind: "violation".into(),
        variant: VARIANT.into(),
        minimised: m.accepted > 0,
        minimiser_executions: m.executions,
        original_size,
        size: m.scenario.size(),
        scenario: Some(m.scenario),
    };
    std::fs::write(&path, serde_json::to_vec_pretty(&rf).unwrap()).expect("write replay file");
    // the minimised file must reproduce in a fresh process
    let exe = std::env::current_exe().expect("current exe");
    let st = Command::new(exe).arg("replay").arg(&path).arg("--quiet").stdout(Stdio::null()).status();
    let confirmed = matches!(st.map(|s| s.code()), Ok(Some(1)));
    println!(
        "violation: property={} clause={} run_index={} run_seed={} minimised {} -> {} bytes in {} executions; replay in a fresh process {}",
        v.property,
        v.clause,
        index,
        run_seed,
        original_size,
        rf.size,
        rf.minimiser_executions,
        if confirmed { "reproduces" } else { "DID NOT REPRODUCE" }
    );
    println!("  {}", rf.detail);
    println!("VIOLATION-AT {} property={} replay={}", index, prop, path.display());
    path.display().to_string()
}

// ---------------------------------------------------------------------------
// replay
// ---------------------------------------------------------------------------

fn replay(path: &str, quiet: bool) -> i32 {
    core::install_panic_hook();
    let text = match std::fs::read(path) {
        Ok(t) => t,
        Err(e) => {
            eprintln!("cannot read {}: {}", path, e);
            return 2;
        }
    };
    let rf: ReplayFile = match serde_json::from_slice(&text) {
        Ok(r) => r,
        Err(e) => {
            eprintln!("cannot parse {}: {}", path, e);
            return 2;
        }
    };
    if rf.harness_version != HARNESS_VERSION {
        eprintln!("replay file is for harness version {}, this is {}", rf.harness_version, HARNESS_VERSION);
        return 2;
    }
    let Some(mask) = Mask::of(&rf.property) else {
        eprintln!("unknown property {}", rf.property);
        return 2;
    };
    if rf.variant != VARIANT {
        // recorded by the other build of the simulator: let that one replay it
        let exe = variant_exe(&rf.variant);
        let mut c = Command::new(exe);
        c.arg("replay").arg(path);
        if quiet {
            c.arg("--quiet");
        }
        return match c.status() {
            Ok(st) => st.code().unwrap_or(1),
            Err(e) => {
                eprintln!("cannot run the {} build of the simulator: {}", rf.variant, e);
                2
            }
        };
    }
    if rf.kind == "crash" && rf.scenario.is_some() {
        // execute the recorded scenario in a child process: it reproduces if the child dies or hangs
        let attempt = Duration::from_secs(std::env::var("VERIF_CRASH_ATTEMPT_S").ok().and_then(|x| x.parse().ok()).unwrap_or(10));
        let (end, _) = run_child(&["exec", path], attempt * 3);
        return match end {
            ChildEnd::Died | ChildEnd::Hung | ChildEnd::Violation => {
                if !quiet {
                    println!("replay: the scenario {} in a child process (recorded: {})", if end == ChildEnd::Hung { "hangs" } else if end == ChildEnd::Died { "kills the process" } else { "violates the property" }, rf.clause);
                    println!("VIOLATION property={} replay={}", rf.property, path);
                }
                1
            }
            ChildEnd::Held => {
                if !quiet {
                    println!("replay: {} held on this tree (recorded: {} {})", rf.property, rf.clause, rf.detail);
                }
                0
            }
            ChildEnd::Error => 2,
        };
    }
    if rf.kind == "crash" {
        // re-run that run index in a child process; it reproduces if the child dies
        let exe = std::env::current_exe().expect("current exe");
        let dir = scratch_dir(&format!("replay-{}", std::process::id()));
        let mut child = Command::new(exe)
            .args([
                "worker",
                &rf.engine,
                &rf.property,
                &rf.verif_seed.to_string(),
                &rf.run_index.to_string(),
                &(rf.run_index + 1).to_string(),
                "1",
                "0",
            ])
            .arg(&dir)
            .stdout(Stdio::null())
            .stderr(Stdio::null())
            .spawn()
            .expect("spawn worker");
        // a run that does not finish within the watchdog interval is a hang
        let limit = watchdog_interval();
        let t0 = Instant::now();
        let st: std::io::Result<std::process::ExitStatus> = loop {
            match child.try_wait() {
                Ok(Some(st)) => break Ok(st),
                Ok(None) if t0.elapsed() > limit => {
                    let _ = child.kill();
                    break child.wait();
                }
                Ok(None) => std::thread::sleep(Duration::from_millis(20)),
                Err(e) => break Err(e),
            }
        };
        let _ = std::fs::remove_dir_all(&dir);
        return match st.map(|s| s.code()) {
            Ok(Some(0)) => {
                if !quiet {
                    println!("replay: run {} of {} completed without crashing", rf.run_index, rf.engine);
                }
                0
            }
            _ => {
                if !quiet {
                    println!("VIOLATION property={} replay={}", rf.property, path);
                }
                1
            }
        };
    }
    let Some(scn) = rf.scenario else {
        eprintln!("replay file has no scenario");
        return 2;
    };
    // standing determinism check: an unminimised scenario must be what its seed generates
    if !rf.minimised {
        if let Ok(again) = gen_scenario(&rf.engine, rf.verif_seed, rf.run_index) {
            if serde_json::to_vec(&again).ok() != serde_json::to_vec(&scn).ok() {
                eprintln!("nondeterminism: seed {} index {} no longer generates the recorded scenario", rf.verif_seed, rf.run_index);
                return 2;
            }
        }
    }
    // A violation that consists in nondeterminism of the library (two
    // executions of one history differing) shows in a given execution only with
    // some probability: re-execute a few times before concluding that it is gone.
    let mut outcome = scn.exec(mask);
    let mut attempts = 1;
    while outcome.is_none() && attempts < 8 {
        outcome = scn.exec(mask);
        attempts += 1;
    }
    match outcome {
        Some(v) if v.property == rf.property && v.clause == rf.clause => {
            if !quiet {
                println!("replay: {} {}: {}", v.property, v.clause, v.detail);
                println!("VIOLATION property={} replay={}", rf.property, path);
            }
            1
        }
        Some(v) => {
            if !quiet {
                println!(
                    "replay: a different clause failed ({} {}: {}); recorded was {}",
                    v.property, v.clause, v.detail, rf.clause
                );
                println!("VIOLATION property={} replay={}", rf.property, path);
            }
            1
        }
        None => {
            if !quiet {
                println!("replay: {} held on this tree (recorded: {} {})", rf.property, rf.clause, rf.detail);
            }
            0
        }
    }
}

/// `sim exec <file>`: execute the scenario of a replay file in this process.
/// Exit 0 held, 1 violation; a crash or hang shows as the death of the process.
fn exec_file(path: &str) -> i32 {
    core::install_panic_hook();
    let Ok(text) = std::fs::read(path) else { return 2 };
    let Ok(rf) = serde_json::from_slice::<ReplayFile>(&text) else { return 2 };
    let Some(mask) = Mask::of(&rf.property) else { return 2 };
    match rf.scenario {
        Some(s) => match s.exec(mask) {
            Some(_) => 1,
            None => 0,
        },
        None => 2,
    }
}

/// How a child process running one scenario ended.
#[derive(PartialEq, Eq, Debug, Clone, Copy)]
enum ChildEnd {
    Held,
    Violation,
    Died,
    Hung,
    Error,
}

fn run_child(args: &[&str], limit: Duration) -> (ChildEnd, String) {
    run_child_of(VARIANT, args, limit)
}

fn run_child_of(variant: &str, args: &[&str], limit: Duration) -> (ChildEnd, String) {
    let exe = variant_exe(variant);
    let mut child = match Command::new(exe).args(args).stdout(Stdio::piped()).stderr(Stdio::piped()).spawn() {
        Ok(c) => c,
        Err(_) => return (ChildEnd::Error, String::new()),
    };
    let t0 = Instant::now();
    loop {
        match child.try_wait() {
            Ok(Some(_)) => break,
            Ok(None) if t0.elapsed() > limit => {
                let _ = child.kill();
                let _ = child.wait();
                return (ChildEnd::Hung, String::new());
            }
            Ok(None) => std::thread::sleep(Duration::from_millis(10)),
            Err(_) => return (ChildEnd::Error, String::new()),
        }
    }
    let o = match child.wait_with_output() {
        Ok(o) => o,
        Err(_) => return (ChildEnd::Error, String::new()),
    };
    let out = String::from_utf8_lossy(&o.stdout).to_string();
    let end = match o.status.code() {
        Some(0) => ChildEnd::Held,
        Some(1) => ChildEnd::Violation,
        Some(2) => ChildEnd::Error,
        _ => ChildEnd::Died,
    };
    (end, out)
}

fn crash_file(rf: &ReplayFile, dir: &Path, n: u32) -> PathBuf {
    let p = dir.join(format!("cand-{}.json", n));
    std::fs::write(&p, serde_json::to_vec(rf).unwrap()).expect("write candidate");
    p
}

/// The worker for (engine, index) died or hung: obtain its scenario in a
/// child process, minimise it with child-process executions (small budget:
/// every attempt costs a process, a hanging one costs the attempt timeout)
/// and write the replay file.
fn report_crash(prop: &str, verif_seed: u64, engine: &str, variant: &str, idx: u64, why: &str, detail: String) -> (String, ReplayFile) {
    let run_seed = rng::run_seed(verif_seed, engine_id(engine), idx);
    let path = replay_path(prop, run_seed);
    let mut rf = ReplayFile {
        harness_version: HARNESS_VERSION,
        property: prop.to_string(),
        clause: format!("process.{}", why),
        detail,
        verif_seed,
        engine: engine.to_string(),
        run_index: idx,
        run_seed,
        kind: "crash".into(),
        variant: variant.to_string(),
        minimised: false,
        minimiser_executions: 0,
        original_size: 0,
        size: 0,
        scenario: None,
    };
    let attempt = Duration::from_secs(std::env::var("VERIF_CRASH_ATTEMPT_S").ok().and_then(|x| x.parse().ok()).unwrap_or(10));
    let (end, out) = run_child_of(variant, &["dump", engine, &verif_seed.to_string(), &idx.to_string()], attempt * 3);
    if end == ChildEnd::Held {
        if let Ok(scn) = serde_json::from_str::<Scenario>(&out) {
            let dir = scratch_dir(&format!("crashmin-{}", std::process::id()));
            rf.original_size = scn.size();
            rf.scenario = Some(scn.clone());
            let want_hang = why == "hang";
            // the full scenario must show the failure in a child, or the file stays seed-only
            let p0 = crash_file(&rf, &dir, 0);
            let (e0, _) = run_child_of(variant, &["exec", p0.to_str().unwrap()], if want_hang { attempt } else { attempt * 6 });
            let bad = |e: ChildEnd| if want_hang { e == ChildEnd::Hung } else { e == ChildEnd::Died };
            if bad(e0) {
                let mut n = 0u32;
                let mut probe_rf = rf.clone();
                let (min, execs, accepted) = minimise::minimise_by(&scn, 40, Duration::from_secs(90), &mut |cand| {
                    n += 1;
                    probe_rf.scenario = Some(cand.clone());
                    let p = crash_file(&probe_rf, &dir, n);
                    let (e, _) = run_child_of(variant, &["exec", p.to_str().unwrap()], attempt);
                    let _ = std::fs::remove_file(p);
                    bad(e)
                });
                rf.size = min.size();
                rf.scenario = Some(min);
                rf.minimised = accepted > 0;
                rf.minimiser_executions = execs;
            } else {
                // not reproducible from the scenario alone: keep the seed-only form
                rf.scenario = None;
            }
            let _ = std::fs::remove_dir_all(&dir);
        }
    }
    std::fs::write(&path, serde_json::to_vec_pretty(&rf).unwrap()).expect("write replay");
    (path.display().to_string(), rf)
}

// ---------------------------------------------------------------------------
// supervisor
// ---------------------------------------------------------------------------

/// A worker whose status file does not change for this long is hung (a run
/// normally takes well under a millisecond to a few hundred milliseconds).
fn watchdog_interval() -> Duration {
    Duration::from_secs(std::env::var("VERIF_WATCHDOG_S").ok().and_then(|x| x.parse().ok()).unwrap_or(120))
}

fn scratch_dir(name: &str) -> PathBuf {
    let d = verif_root().join("sim").join("target").join("scratch").join(name);
    let _ = std::fs::remove_dir_all(&d);
    std::fs::create_dir_all(&d).expect("scratch dir");
    d
}

fn read_hashes(dir: &Path, name: &str, workers: u64) -> Vec<u64> {
    let mut all = Vec::new();
    for k in 0..workers {
        if let Ok(b) = std::fs::read(dir.join(format!("hash.{}.{}.bin", name, k))) {
            all.extend(b.chunks_exact(8).map(|c| u64::from_le_bytes(c.try_into().unwrap())));
        }
    }
    all.sort_unstable();
    all.dedup();
    all
}

fn check(prop: &str, tier: &str) -> i32 {
    let Some(pl) = plan(prop) else {
        eprintln!("{} is not a claimed property (see MANIFEST.json not_applicable)", prop);
        return 2;
    };
    let verif_seed: u64 = std::env::var("VERIF_SEED").ok().and_then(|x| x.parse().ok()).unwrap_or(1);
    let tier = std::env::var("VERIF_TIER").ok().filter(|t| t == "quick" || t == "thorough").unwrap_or(tier.to_string());
    let workers: u64 = std::env::var("VERIF_WORKERS")
        .ok()
        .and_then(|x| x.parse().ok())
        .unwrap_or_else(|| std::thread::available_parallelism().map(|n| n.get() as u64).unwrap_or(4))
        .max(1);
    let scale: f64 = std::env::var("VERIF_RUNS_SCALE").ok().and_then(|x| x.parse().ok()).unwrap_or(1.0);
    let watchdog = watchdog_interval();
    println!("check {} tier={} VERIF_SEED={} workers={}", prop, tier, verif_seed, workers);
    let t0 = Instant::now();
    let dir = scratch_dir(&format!("{}-{}-{}", prop, tier, std::process::id()));

    let mut total = WorkerOut::default();
    let mut per_engine: Vec<Value> = Vec::new();
    let mut distinct_nontrivial = 0u64;
    let mut extra_distinct: BTreeMap<String, u64> = BTreeMap::new();
    let mut violation_line: Option<String> = None;
    let mut violation_at: Option<u64> = None;
    let mut first_violation_worker: Option<(String, u64)> = None;
    let mut harness_error = false;

    let top_dir = dir.clone();
    for (engine_label, quick, thorough) in &pl.engines {
        // "engine@min": the same engine run by the feature-minimal build
        let (engine, variant) = match engine_label.split_once('@') {
            Some((e, v)) => (e, v),
            None => (*engine_label, "full"),
        };
        let engine = &engine;
        let exe = variant_exe(variant);
        if !exe.exists() {
            eprintln!("harness error: the {} build of the simulator is missing ({}); run ./check, which builds both", variant, exe.display());
            harness_error = true;
            continue;
        }
        let dir = top_dir.join(engine_label.replace('@', "-"));
        std::fs::create_dir_all(&dir).expect("engine scratch dir");
        let runs = ((if tier == "quick" { *quick } else { *thorough }) as f64 * scale).ceil() as u64;
        let runs = runs.max(1);
        let w = workers.min(runs);
        let te = Instant::now();
        let mut children = Vec::new();
        for k in 0..w {
            let child = Command::new(&exe)
                .args(["worker", engine, prop, &verif_seed.to_string(), "0", &runs.to_string(), &w.to_string(), &k.to_string()])
                .arg(&dir)
                .stdout(Stdio::piped())
                .stderr(Stdio::piped())
                .spawn()
                .expect("spawn worker");
            children.push((k, child, Instant::now(), String::new()));
        }
        // wait with a watchdog on the status files
        let mut done: Vec<(u64, Option<i32>, String, String)> = Vec::new();
        while !children.is_empty() {
            std::thread::sleep(Duration::from_millis(50));
            let mut still = Vec::new();
            for (k, mut child, mut last_change, mut last_status) in children {
                match child.try_wait() {
                    Ok(Some(st)) => {
                        let o = child.wait_with_output().expect("worker output");
                        done.push((
                            k,
                            st.code(),
                            String::from_utf8_lossy(&o.stdout).to_string(),
                            String::from_utf8_lossy(&o.stderr).to_string(),
                        ));
                    }
                    Ok(None) => {
                        let s = std::fs::read_to_string(dir.join(format!("status.{}.{}", engine, k))).unwrap_or_default();
                        if s != last_status {
                            last_status = s;
                            last_change = Instant::now();
                        }
                        if last_change.elapsed() > watchdog {
                            let _ = child.kill();
                            let _ = child.wait();
                            done.push((k, None, String::new(), "HANG: no progress within the watchdog interval".into()));
                        } else {
                            still.push((k, child, last_change, last_status));
                        }
                    }
                    Err(e) => {
                        done.push((k, Some(2), String::new(), format!("wait failed: {}", e)));
                    }
                }
            }
            children = still;
        }
        done.sort_by_key(|d| d.0);
        let mut engine_runs = 0u64;
        let mut engine_wall = 0u64;
        for (k, code, stdout, stderr) in done {
            for l in stdout.lines() {
                if let Some(rest) = l.strip_prefix("VIOLATION-AT ") {
                    // keep the violation with the smallest run index: the verdict
                    // does not depend on which worker finished first
                    let (idx, tail) = rest.split_once(' ').unwrap_or(("0", rest));
                    let idx: u64 = idx.parse().unwrap_or(0);
                    if violation_at.map(|a| idx < a).unwrap_or(true) {
                        violation_at = Some(idx);
                        violation_line = Some(format!("VIOLATION {}", tail));
                        first_violation_worker = Some((engine.to_string(), k));
                    }
                } else if l.starts_with("KNOWN-FINDING") {
                    if !total.known_findings.contains(&l.to_string()) {
                        total.known_findings.push(l.to_string());
                    }
                } else if !l.is_empty() {
                    println!("[{} worker {}] {}", engine, k, l);
                }
            }
            match code {
                Some(0) | Some(1) => {
                    let p = dir.join(format!("result.{}.{}.json", engine, k));
                    match std::fs::read(&p).ok().and_then(|b| serde_json::from_slice::<WorkerOut>(&b).ok()) {
                        Some(o) => {
                            engine_runs += o.runs;
                            engine_wall = engine_wall.max(o.wall_ms);
                            total.runs += o.runs;
                            total.events += o.events;
                            total.cases += o.cases;
                            total.draws += o.draws;
                            total.log_xor ^= o.log_xor;
                            for (n, v) in o.probes {
                                let e = total.probes.entry(n.clone()).or_insert(0);
                                if n.starts_with("max.") {
                                    *e = (*e).max(v);
                                } else {
                                    *e += v;
                                }
                            }
                            total.triples.extend(o.triples);
                            if total.samples.len() < 4 {
                                total.samples.extend(o.samples.into_iter().take(1));
                            }
                            if let Some(v) = o.violation {
                                if first_violation_worker.as_ref() == Some(&(engine.to_string(), k)) {
                                    total.violation = Some(v);
                                }
                            }
                        }
                        None => {
                            eprintln!("harness error: worker {} of {} left no result file\n{}", k, engine, stderr);
                            harness_error = true;
                        }
                    }
                }
                // 2: the worker said so; 101: an uncaught Rust panic, which can only
                // come from harness code (library calls run under catch_unwind)
                Some(2) | Some(101) => {
                    eprintln!("harness error in worker {} of {} (exit {:?}):\n{}", k, engine, code, stderr);
                    harness_error = true;
                }
                other => {
                    // the worker died (stack overflow, abort, allocation cap) or hung:
                    // a violation of the property being checked, at the run in its status file
                    let s = std::fs::read_to_string(dir.join(format!("status.{}.{}", engine, k))).unwrap_or_default();
                    let idx: u64 = s.split_whitespace().next().and_then(|x| x.parse().ok()).unwrap_or(0);
                    let why = if stderr.contains("HANG") {
                        "hang".to_string()
                    } else if stderr.contains("ALLOC_CAP") {
                        "allocation_cap".to_string()
                    } else if stderr.contains("stack overflow") || stderr.contains("overflowed its stack") {
                        "stack_overflow".to_string()
                    } else {
                        format!("died({:?})", other)
                    };
                    let detail = format!(
                        "worker process for run {} of {} {}; stderr: {}",
                        idx,
                        engine,
                        why,
                        stderr.lines().rev().take(4).collect::<Vec<_>>().join(" | ")
                    );
                    println!("violation: worker {} of {} {} at run index {}", k, engine, why, idx);
                    if violation_line.is_some() {
                        // one replay file per check is enough: minimising a crash costs processes
                        continue;
                    }
                    let (path, rf) = report_crash(prop, verif_seed, engine, variant, idx, &why, detail);
                    let path = PathBuf::from(path);
                    println!("  {}", rf.detail);
                    let line = format!("VIOLATION property={} replay={}", prop, path.display());
                    if violation_line.is_none() {
                        violation_line = Some(line);
                    }
                    total.violation = Some((
                        Violation { property: prop.into(), clause: rf.clause.clone(), detail: rf.detail.clone(), case: None },
                        path.display().to_string(),
                    ));
                }
            }
        }
        let nt = read_hashes(&dir, &format!("{}.nontrivial", engine), w);
        distinct_nontrivial += nt.len() as u64;
        if *engine_label == "regsim" {
            for n in ["order", "graph", "registry"] {
                let d = read_hashes(&dir, &format!("regsim.{}", n), w).len() as u64;
                extra_distinct.insert(format!("distinct_{}", match n { "order" => "delivery_orders", "graph" => "type_graphs", _ => "registries_reached" }), d);
            }
        }
        let secs = te.elapsed().as_secs_f64();
        per_engine.push(json!({
            "engine": engine_label,
            "scale_info_features": if variant == "min" { "std,derive,serde,decode" } else { "std,derive,serde,decode,bit-vec,docs" },
            "runs": engine_runs,
            "workers": w,
            "wall_s": secs,
            "runs_per_hour": if secs > 0.0 { (engine_runs as f64 / secs * 3600.0) as u64 } else { 0 },
            "distinct_nontrivial": nt.len(),
        }));
        if violation_line.is_some() {
            break;
        }
    }
    let _ = std::fs::remove_dir_all(&top_dir);

    // reach probes this property's check depends on must have fired
    let mut missing_probes = Vec::new();
    if violation_line.is_none() && !harness_error {
        for p in required_probes(prop) {
            if total.probes.get(*p).copied().unwrap_or(0) == 0 {
                missing_probes.push(p.to_string());
            }
        }
    }

    let wall = t0.elapsed().as_secs_f64();
    let violations = if violation_line.is_some() { 1 } else { 0 };
    let evaluations = if prop == "C14" { total.cases.max(1) } else { total.runs.max(1) };
    let fault_counts: BTreeMap<&String, &u64> = total.probes.iter().filter(|(k, _)| k.starts_with("fault.") || k.starts_with("benign.")).collect();
    let reach: BTreeMap<&String, &u64> = total.probes.iter().filter(|(k, _)| !(k.starts_with("fault.") || k.starts_with("benign."))).collect();
    let mut coverage = json!({
        "evaluations": evaluations,
        "distinct_nontrivial": distinct_nontrivial,
        "rule": pl.rule,
        "samples": total.samples,
        "exhaustive": false,
        "simulated_runs": total.runs,
        "seeds": total.runs,
        "per_engine": per_engine,
        "runs_per_hour": if wall > 0.0 { (total.runs as f64 / wall * 3600.0) as u64 } else { 0 },
        "events_executed": total.events,
        "simulated_time": "none: no code under test reads a clock; the logical clock of the simulated network only orders deliveries (events_executed counts them)",
        "faults_injected": fault_counts,
        "reach_probes": reach,
        "distinct_fault_reader_outcome_triples": total.triples.len(),
        "known_findings_seen": total.known_findings,
        "aiming_parser_disagreements": total.probes.get("aiming_parser.disagreement").copied().unwrap_or(0),
        "components": {
            "real": ["scale_info::Registry", "scale_info::interner::Interner", "IntoPortable impls", "built-in and derived TypeInfo impls", "PortableRegistry (From<Registry>, resolve, retain)", "PortableRegistryBuilder", "derived scale Encode/Decode and serde impls of PortableRegistry", "parity-scale-codec IoReader / Output for io::Write", "serde_json"],
            "simulated": ["clients and their scripts", "network (delivery order, duplication, delay)", "Node<N> type definitions (type_info reads the run's specification)", "Read / Write / Input seams (chunking, short reads, EINTR, I/O errors, unknown remaining length)", "storage medium with fault sequences"],
        },
        "harness_version": HARNESS_VERSION,
        "how_to_reproduce_a_run": "sim/target/release/sim dump <engine> <VERIF_SEED> <run index> prints the complete scenario of any run of this batch (for engines named x@min use sim/target-min/release/sim); a violation writes a minimised scenario to replays/ and ./check replay <file> re-executes it",
    });
    if prop == "C14" {
        let sweep: BTreeMap<&String, &u64> = total.probes.iter().filter(|(k, _)| k.starts_with("sweep.")).collect();
        coverage["single_fault_sweep"] = json!({
            "exhaustive_per_swept_frame": true,
            "frame_population": "sampled (first frame of at most 2048 bytes of each sweep run index)",
            "counts": sweep,
        });
    }
    for (k, v) in extra_distinct {
        coverage[k] = json!(v);
    }
    let evidence = json!({
        "property_id": prop,
        "tier": tier,
        "seed": verif_seed,
        "level": pl.level,
        "coverage": coverage,
        "assumptions": [
            "seeded sampling: a clean batch is evidence, not proof",
            "the harness binary is rebuilt from /repo's working tree by ./check before every run",
            "oracles compare harness-owned mirrors of the data model converted through public fields",
            "TypeId order is fixed within one binary; the per-run permutation of node types varies it across runs",
        ],
        "wall_s": wall,
        "violations": violations,
    });
    let ev_dir = match std::env::var("VERIF_EVIDENCE_DIR") {
        Ok(d) if !d.is_empty() => PathBuf::from(d),
        _ => verif_root().join("evidence"),
    };
    std::fs::create_dir_all(&ev_dir).ok();
    let ev_path = ev_dir.join(format!("{}.json", prop));
    let mut f = std::fs::File::create(&ev_path).expect("evidence file");
    f.write_all(&serde_json::to_vec_pretty(&evidence).unwrap()).expect("write evidence");
    f.write_all(b"\n").ok();

    for l in &total.known_findings {
        println!("{}", l);
    }
    println!(
        "{}: {} runs, {} events, {} fault cases, {} distinct non-trivial, {:.1}s, evidence {}",
        prop,
        total.runs,
        total.events,
        total.cases,
        distinct_nontrivial,
        wall,
        ev_path.display()
    );
    if let Some(l) = violation_line {
        if let Some((v, _)) = &total.violation {
            println!("violated clause: {} {}: {}", v.property, v.clause, v.detail);
        }
        println!("{}", l);
        return 1;
    }
    if harness_error {
        return 2;
    }
    if !missing_probes.is_empty() {
        eprintln!("harness error: reach probes stuck at zero: {:?}", missing_probes);
        return 2;
    }
    if distinct_nontrivial < 2 {
        eprintln!("harness error: fewer than two distinct non-trivial cases");
        return 2;
    }
    0
}

fn required_probes(prop: &str) -> &'static [&'static str] {
    match prop {
        "C01" => &["checks.builder_finish_closed_for_disciplined_clients", "reach.builder_self_reference_protocol", "reach.cycle_in_registry", "reach.node_referenced_only_through_type_parameter", "chain.retain", "chain.scale_round_trip", "chain.builder_rebuild", "events.builder_finish", "kind.bitsequence", "kind.compact", "kind.array"],
        "C02" => &["fault.unwind_in_type_info.fired", "reach.registration_after_an_unwound_one", "reach.cycle_in_registry", "reach.alias_registered_before_target", "reach.node_referenced_only_through_type_parameter", "kind.variant", "kind.tuple"],
        "C05" => &["reach.registry_above_256_entries", "fault.unwind_in_type_info.fired", "reach.registration_after_an_unwound_one", "reach.redelivery_of_known_identity", "reach.duplicate_after_unrelated_registrations", "reach.alias_registered_before_target", "reach.register_many_same_type_twice", "fault.duplicate_delivery"],
        "C10" => &["frame_source.chain_registry", "frame_source.duplicate_description", "checks.retain_after_decode", "reach.retain_on_registry_with_bit_sequence", "reach.retain_partial", "reach.retain_kept_everything", "reach.retain_kept_nothing", "reach.retain_pulled_in_unaccepted_dependency", "reach.retain_kept_a_cycle_and_dropped_something"],
        "C11" => &["fault.unwind_in_type_info.fired", "reach.registration_after_an_unwound_one", "checks.fault_injecting_configuration", "reach.replica_order_differs", "checks.replay", "checks.replica_compared", "fault.reordered_delivery", "fault.duplicate_delivery"],
        "C12" => &["reach.builder_table_above_256", "reach.builder_table_above_1000", "reach.builder_table_above_16384", "reach.builder_table_above_65536", "fault.unwind_in_key_clone_or_cmp.fired", "reach.unwound_operation_had_no_effect", "checks.interner_fault_injecting_configuration", "reach.builder_duplicate_after_unrelated_inserts", "reach.builder_self_reference_through_next_type_id", "reach.builder_self_reference_deduplicated_to_older_index", "reach.builder_get_beyond_end", "reach.interner_resolve_out_of_range", "reach.interner_get_unknown", "reach.interner_duplicate_after_unrelated_inserts"],
        "C07" => &["fault.unwind_in_encode_consumer.fired", "checks.encode_edit_encode", "checks.frame_decoded_alone", "frame_source.lean_registry", "frame_source.many_types", "frame_source.bulk_collection", "reach.remaining_len_none_path", "reach.io_reader_path", "benign.short_read", "benign.eintr_on_read", "benign.short_write", "compact_class.frame_len.1byte", "compact_class.frame_len.2byte", "compact_class.frame_len.4byte"],
        "C14" => &["sweep.frames_swept", "sweep.single_faults.json_structural", "sweep.single_faults.json_text", "sweep.single_faults.targeted_rewrites_x3_readers", "fault.truncate.effective", "fault.flip_bit.effective", "fault.rewrite.vec_len.effective", "fault.rewrite.id.effective", "fault.rewrite.def_tag.effective", "fault.io_error_returned_to_decoder", "reach.decode_survived_a_fault_with_a_new_registry", "reach.decode_consumed_less_than_medium", "fault.json_structural.effective", "fault.json_structural.survived", "reach.io_error_inside_frames"],
        _ => &[],
    }
}

// ---------------------------------------------------------------------------

fn loghashes(engine: &str, seed: u64, from: u64, to: u64, step: u64, offset: u64) -> i32 {
    core::install_panic_hook();
    let mut i = from + offset;
    while i < to {
        match gen_scenario(engine, seed, i) {
            Ok(scn) => {
                let sh = rng::hash_of(&serde_json::to_vec(&scn).unwrap_or_default());
                let (log, verdict) = match &scn {
                    Scenario::Reg(s) => match regsim::execute(s, Mask::ALL) {
                        Ok(r) => (r.log_hash, "ok".to_string()),
                        Err(v) => (core::log_value(), format!("{}:{}", v.property, v.clause)),
                    },
                    Scenario::Tab(s) => match tablesim::execute(s, Mask::ALL) {
                        Ok(r) => (r.log_hash, "ok".to_string()),
                        Err(v) => (core::log_value(), format!("{}:{}", v.property, v.clause)),
                    },
                    Scenario::Wire(s) => match wiresim::execute(s, Mask::ALL) {
                        Ok(r) => (r.log_hash, "ok".to_string()),
                        Err(v) => (core::log_value(), format!("{}:{}", v.property, v.clause)),
                    },
                };
                println!("{} {} {:016x} {:016x} {}", engine, i, sh, log, verdict);
            }
            Err(e) => println!("{} {} generation-failed {}", engine, i, e),
        }
        i += step;
    }
    let _ = core::take_probes();
    0
}

fn main() {
    let args: Vec<String> = std::env::args().collect();
    core::install_panic_hook();
    let code = std::panic::catch_unwind(std::panic::AssertUnwindSafe(|| dispatch(&args)));
    let code = match code {
        Ok(c) => c,
        Err(_) => {
            // library calls run under catch_unwind inside the engines: what
            // unwinds to here is a defect of the harness
            eprintln!("harness panic: {}", core::last_panic());
            2
        }
    };
    std::process::exit(code);
}

fn dispatch(args: &[String]) -> i32 {
    let a = |i: usize| args.get(i).map(|s| s.as_str()).unwrap_or("");
    let n = |i: usize| -> u64 { args.get(i).and_then(|x| x.parse().ok()).unwrap_or(0) };
    match a(1) {
        "check" => check(a(2), if a(3).is_empty() { "quick" } else { a(3) }),
        "worker" => worker(a(2), a(3), n(4), n(5), n(6), n(7).max(1), n(8), Path::new(a(9))),
        "replay" => replay(a(2), args.iter().any(|x| x == "--quiet")),
        "exec" => exec_file(a(2)),
        "loghashes" => loghashes(a(2), n(3), n(4), n(5), n(6).max(1), n(7)),
        "dump" => match gen_scenario(a(2), n(3), n(4)) {
            Ok(s) => {
                println!("{}", serde_json::to_string_pretty(&s).unwrap());
                0
            }
            Err(e) => {
                eprintln!("{}", e);
                2
            }
        },
        _ => {
            eprintln!("usage: sim check <property> <quick|thorough> | replay <file> | dump <engine> <seed> <index> | loghashes ...");
            2
        }
    }
}
