//! A small parser of the SCALE layout of a registry, written from the layout
//! in the statement of C06.  It is used ONLY to aim faults at length fields,
//! ids, tags and option bytes; it is not an oracle (C06 is not claimed).  When
//! it disagrees with the library about a frame, aiming is switched off for
//! that frame and the disagreement is counted.

use serde::{Deserialize, Serialize};

#[derive(Clone, Copy, PartialEq, Eq, PartialOrd, Ord, Debug, Hash, Serialize, Deserialize)]
pub enum FieldClass {
    VecLen,
    StrLen,
    Id,
    DefTag,
    PrimTag,
    OptionByte,
    ArrayLen,
    VariantIndex,
    StrByte,
}

#[derive(Clone, Copy, Debug)]
pub struct Site {
    pub at: usize,
    pub len: usize,
    pub class: FieldClass,
    pub value: u64,
}

struct P<'a> {
    b: &'a [u8],
    pos: usize,
    sites: Vec<Site>,
}

type R<T> = Result<T, ()>;

impl<'a> P<'a> {
    fn byte(&mut self) -> R<u8> {
        let x = *self.b.get(self.pos).ok_or(())?;
        self.pos += 1;
        Ok(x)
    }
    fn compact(&mut self, class: FieldClass) -> R<u64> {
        let at = self.pos;
        let b0 = self.byte()?;
        let v = match b0 & 3 {
            0 => (b0 >> 2) as u64,
            1 => {
                let b1 = self.byte()?;
                (u16::from_le_bytes([b0, b1]) >> 2) as u64
            }
            2 => {
                let b1 = self.byte()?;
                let b2 = self.byte()?;
                let b3 = self.byte()?;
                (u32::from_le_bytes([b0, b1, b2, b3]) >> 2) as u64
            }
            _ => {
                let n = (b0 >> 2) as usize + 4;
                if n > 8 {
                    return Err(());
                }
                let mut v = 0u64;
                for i in 0..n {
                    v |= (self.byte()? as u64) << (8 * i);
                }
                v
            }
        };
        self.sites.push(Site { at, len: self.pos - at, class, value: v });
        Ok(v)
    }
    fn string(&mut self) -> R<()> {
        let n = self.compact(FieldClass::StrLen)? as usize;
        if self.pos + n > self.b.len() {
            return Err(());
        }
        if n > 0 {
            self.sites.push(Site { at: self.pos, len: 1, class: FieldClass::StrByte, value: n as u64 });
        }
        self.pos += n;
        Ok(())
    }
    fn strings(&mut self) -> R<()> {
        let n = self.compact(FieldClass::VecLen)?;
        for _ in 0..n {
            self.string()?;
        }
        Ok(())
    }
    fn option(&mut self) -> R<bool> {
        let at = self.pos;
        let b = self.byte()?;
        self.sites.push(Site { at, len: 1, class: FieldClass::OptionByte, value: b as u64 });
        match b {
            0 => Ok(false),
            1 => Ok(true),
            _ => Err(()),
        }
    }
    fn field(&mut self) -> R<()> {
        if self.option()? {
            self.string()?;
        }
        self.compact(FieldClass::Id)?;
        if self.option()? {
            self.string()?;
        }
        self.strings()
    }
    fn fields(&mut self) -> R<()> {
        let n = self.compact(FieldClass::VecLen)?;
        for _ in 0..n {
            self.field()?;
        }
        Ok(())
    }
    fn ty(&mut self) -> R<()> {
        self.strings()?; // path
        let np = self.compact(FieldClass::VecLen)?;
        for _ in 0..np {
            self.string()?;
            if self.option()? {
                self.compact(FieldClass::Id)?;
            }
        }
        let at = self.pos;
        let tag = self.byte()?;
        self.sites.push(Site { at, len: 1, class: FieldClass::DefTag, value: tag as u64 });
        match tag {
            0 => self.fields()?,
            1 => {
                let nv = self.compact(FieldClass::VecLen)?;
                for _ in 0..nv {
                    self.string()?;
                    self.fields()?;
                    let at = self.pos;
                    let idx = self.byte()?;
                    self.sites.push(Site {
                        at,
                        len: 1,
                        class: FieldClass::VariantIndex,
                        value: idx as u64,
                    });
                    self.strings()?;
                }
            }
            2 | 6 => {
                self.compact(FieldClass::Id)?;
            }
            3 => {
                let at = self.pos;
                let mut v = 0u64;
                for i in 0..4 {
                    v |= (self.byte()? as u64) << (8 * i);
                }
                self.sites.push(Site { at, len: 4, class: FieldClass::ArrayLen, value: v });
                self.compact(FieldClass::Id)?;
            }
            4 => {
                let n = self.compact(FieldClass::VecLen)?;
                for _ in 0..n {
                    self.compact(FieldClass::Id)?;
                }
            }
            5 => {
                let at = self.pos;
                let p = self.byte()?;
                self.sites.push(Site { at, len: 1, class: FieldClass::PrimTag, value: p as u64 });
            }
            7 => {
                self.compact(FieldClass::Id)?;
                self.compact(FieldClass::Id)?;
            }
            _ => return Err(()),
        }
        self.strings() // docs
    }
}

/// Offset map of one frame; `None` when the parser does not consume exactly
/// the frame (a disagreement with the library's encoder).
pub fn sites(frame: &[u8]) -> Option<Vec<Site>> {
    let mut p = P { b: frame, pos: 0, sites: Vec::new() };
    let n = p.compact(FieldClass::VecLen).ok()?;
    for _ in 0..n {
        p.compact(FieldClass::Id).ok()?;
        p.ty().ok()?;
    }
    if p.pos != frame.len() {
        return None;
    }
    Some(p.sites)
}

/// Canonical compact encoding of `v`.
pub fn compact(v: u64) -> Vec<u8> {
    if v < 1 << 6 {
        vec![(v as u8) << 2]
    } else if v < 1 << 14 {
        (((v as u16) << 2) | 1).to_le_bytes().to_vec()
    } else if v < 1 << 30 {
        (((v as u32) << 2) | 2).to_le_bytes().to_vec()
    } else {
        let bytes = v.to_le_bytes();
        let n = (8 - (v.leading_zeros() / 8) as usize).max(4);
        let mut out = vec![(((n - 4) as u8) << 2) | 3];
        out.extend_from_slice(&bytes[..n]);
        out
    }
}

/// Non-canonical encodings of `v` (a wider mode than needed), where they exist.
pub fn non_canonical(v: u64) -> Vec<Vec<u8>> {
    let mut out = Vec::new();
    if v < 1 << 6 {
        out.push((((v as u16) << 2) | 1).to_le_bytes().to_vec());
    }
    if v < 1 << 14 {
        out.push((((v as u32) << 2) | 2).to_le_bytes().to_vec());
    }
    if v < 1 << 30 {
        let mut b = vec![3u8];
        b.extend_from_slice(&(v as u32).to_le_bytes());
        out.push(b);
    }
    if v <= u32::MAX as u64 {
        // big-integer mode with one byte more than needed
        let mut b = vec![(1u8 << 2) | 3];
        b.extend_from_slice(&(v as u32).to_le_bytes());
        b.push(0);
        out.push(b);
    }
    out
}
