//! Static string pool.  `MetaForm` strings are `&'static str`, so every name,
//! type name and doc line a run-time generated definition uses comes from
//! here, addressed by a small integer that is what scenarios record.

use crate::rng::Rng;
use std::sync::OnceLock;

pub type StrId = u16;

const IDENTS: &[&str] = &[
    "a", "b", "c", "x", "y", "T", "U", "V", "K", "E", "_", "_0", "__", "r#type", "r#fn", "foo",
    "bar", "baz", "Node", "Leaf", "Tree", "Pallet", "Call", "Event", "Error", "Balance",
    "AccountId", "Hash", "Vec", "Option", "Box", "core", "alloc", "std", "frame_system",
    "pallet_balances", "sp_runtime", "value", "index", "data", "next", "left", "right", "Some",
    "None", "Ok", "Err", "A0", "z9_", "Lsb0", "Msb0", "r#mod", "PhantomData", "Compact",
];

const ODD: &[&str] = &[
    " ",
    "::",
    "a::b",
    "r#",
    "1abc",
    "with space",
    "tab\there",
    "line\nbreak",
    "quote\"q",
    "back\\slash",
    "nul\0byte",
    "\u{7f}",
    "é",
    "日本語",
    "😀",
    "a\u{0301}",
    "\u{feff}bom",
    "\u{10ffff}",
    "{\"json\":[1,2]}",
    "<T as Trait>::Assoc",
];

const TYPE_NAMES: &[&str] = &[
    "u8",
    "u32",
    "Vec<u8>",
    "Vec < T >",
    "Box<Self>",
    "&'static str",
    "[u8; 32]",
    "Option<T::Hash>",
    "BTreeMap<K, V>",
    "(A, B)",
    "T",
    "<T as Config>::AccountId",
    "PhantomData<T>",
    "Compact<u128>",
    "& 'static str",
    "&'static str",
    "& mut T",
    "Vec < u8 >",
    ":: core :: primitive :: u8",
    "[u8 ; 32]",
];

const DOCS: &[&str] = &[
    " A doc line.",
    " Another line, with `code`.",
    "",
    " ",
    "no leading space",
    " # Heading",
    " trailing space ",
    " unicode: ünïcödé ✓",
];

/// Lengths on both sides of the SCALE compact boundaries for a length prefix.
const LONG_LENS: &[usize] = &[62, 63, 64, 65, 255, 256, 1000, 16382, 16383, 16384, 16385, 70001];

struct Pool {
    all: Vec<&'static str>,
    idents: (u16, u16),
    odd: (u16, u16),
    type_names: (u16, u16),
    docs: (u16, u16),
    long: (u16, u16),
}

fn pool() -> &'static Pool {
    static P: OnceLock<Pool> = OnceLock::new();
    P.get_or_init(|| {
        let mut all: Vec<&'static str> = vec![""];
        let sect = |xs: &[&'static str], all: &mut Vec<&'static str>| {
            let lo = all.len() as u16;
            all.extend_from_slice(xs);
            (lo, all.len() as u16)
        };
        let idents = sect(IDENTS, &mut all);
        let odd = sect(ODD, &mut all);
        let type_names = sect(TYPE_NAMES, &mut all);
        let docs = sect(DOCS, &mut all);
        let lo = all.len() as u16;
        for (k, &n) in LONG_LENS.iter().enumerate() {
            // valid identifiers, distinct per length: a prefix then filler
            let mut s = format!("L{}_", k);
            while s.len() < n {
                s.push((b'a' + (s.len() % 26) as u8) as char);
            }
            s.truncate(n);
            all.push(Box::leak(s.into_boxed_str()));
        }
        // one long non-ASCII string (length counted in bytes: 3 * 5462 = 16386)
        all.push(Box::leak("語".repeat(5462).into_boxed_str()));
        // short ASCII prefixes followed by 2-, 3- and 4-byte characters: a
        // multi-byte character across every small offset a fixed-size prefix
        // or buffer could end at
        for k in [7usize, 8, 15, 16, 23, 24, 31, 32, 63, 64] {
            for c in ['\u{e9}', '\u{8a9e}', '\u{1F600}'] {
                for back in 0..2usize {
                    let mut s = "Zahlung_".repeat(9);
                    s.truncate(k - back);
                    s.push(c);
                    s.push_str("berziehung");
                    all.push(Box::leak(s.into_boxed_str()));
                }
            }
        }
        // ASCII filler with a 4-byte scalar straddling a power-of-two offset
        for at in [255usize, 1023, 4095, 16383] {
            for shift in 0..3usize {
                let mut s = "f".repeat(at - shift);
                s.push('\u{1F600}');
                s.push_str("tail");
                all.push(Box::leak(s.into_boxed_str()));
            }
        }
        let long = (lo, all.len() as u16);
        Pool {
            all,
            idents,
            odd,
            type_names,
            docs,
            long,
        }
    })
}

#[inline]
pub fn s(id: StrId) -> &'static str {
    let p = pool();
    p.all[id as usize % p.all.len()]
}

#[allow(dead_code)]
pub fn pool_len() -> usize {
    pool().all.len()
}

fn pick(rng: &mut Rng, r: (u16, u16)) -> StrId {
    r.0 + rng.below((r.1 - r.0) as u64) as u16
}

/// How string ids are drawn in one run (part of the swarm configuration).
#[derive(Clone, Copy, Debug, serde::Serialize, serde::Deserialize, Hash)]
pub struct StrCfg {
    /// permille of draws that come from the odd (non identifier) section
    pub odd: u32,
    /// permille of draws that are long strings
    pub long: u32,
    /// permille of draws that are the empty string
    pub empty: u32,
}

pub fn ident(rng: &mut Rng, c: &StrCfg) -> StrId {
    if rng.permille(c.long) {
        // the first LONG_LENS.len() long strings are valid identifiers
        let p = pool();
        return p.long.0 + rng.below(LONG_LENS.len() as u64) as u16;
    }
    if rng.permille(c.odd) {
        return pick(rng, pool().odd);
    }
    if rng.permille(c.empty) {
        return 0;
    }
    pick(rng, pool().idents)
}

pub fn type_name(rng: &mut Rng, c: &StrCfg) -> StrId {
    if rng.permille(c.long) {
        return pick(rng, pool().long);
    }
    if rng.permille(c.odd) {
        return pick(rng, pool().odd);
    }
    if rng.permille(c.empty) {
        return 0;
    }
    if rng.permille(300) {
        return pick(rng, pool().idents);
    }
    pick(rng, pool().type_names)
}

pub fn doc(rng: &mut Rng, c: &StrCfg) -> StrId {
    if rng.permille(c.long) {
        return pick(rng, pool().long);
    }
    if rng.permille(c.odd) {
        return pick(rng, pool().odd);
    }
    pick(rng, pool().docs)
}

/// Any string of the pool, for portable-side generators.
pub fn any(rng: &mut Rng, c: &StrCfg) -> StrId {
    match rng.below(4) {
        0 => ident(rng, c),
        1 => type_name(rng, c),
        2 => doc(rng, c),
        _ => {
            if rng.permille(c.long) {
                pick(rng, pool().long)
            } else {
                rng.below(pool().long.0 as u64) as u16
            }
        }
    }
}
