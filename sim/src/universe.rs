//! The type universe: run-time generated type graphs over the *real*
//! `Registry`.  `Node<N>` is a family of static Rust types whose `type_info()`
//! reads the current run's specification from a thread-local table, so one
//! binary can register arbitrary graphs (cycles, diamonds, aliases, nodes met
//! first as a type parameter) through the library's own `MetaType`,
//! `IntoPortable` impls and built-in generic `TypeInfo` impls.

use crate::corpus::{self, CORPUS};
use crate::pool::{s, StrId};
use scale_info::{
    MetaType, Path, Type, TypeDef, TypeDefArray, TypeDefBitSequence, TypeDefCompact,
    TypeDefComposite, TypeDefPrimitive, TypeDefSequence, TypeDefTuple, TypeDefVariant, TypeInfo,
    TypeParameter,
};
use serde::{Deserialize, Serialize};
use std::{
    borrow::Cow,
    cell::{Cell, RefCell},
    collections::{BTreeMap, BTreeSet, BinaryHeap, VecDeque},
    marker::PhantomData,
    ops::{Range, RangeInclusive},
    rc::Rc,
    sync::Arc,
};

/// Number of dynamic node types.
pub const K: usize = 32;

#[derive(Clone, Copy, Debug, PartialEq, PartialOrd)]
pub struct Node<const N: usize>;

impl<const N: usize> TypeInfo for Node<N> {
    type Identity = Self;
    fn type_info() -> Type {
        definition_of(N)
    }
}

/// How a reference reaches its node: bare, or through one of the library's
/// own generic impls (or a derived generic of the corpus), or a member of the
/// fixed corpus.
#[derive(Clone, Copy, PartialEq, Eq, PartialOrd, Ord, Debug, Hash, Serialize, Deserialize)]
pub enum W {
    Bare,
    Box,
    Rc,
    Arc,
    Ref,
    RefMut,
    BoxBox,
    RefArcBox,
    RcRef,
    Vec,
    VecDeque,
    Slice,
    BoxSlice,
    RefSlice,
    ArcVec,
    BoxVec,
    VecBox,
    VecVec,
    RefVecDeque,
    Option,
    OptionRc,
    OptionOption,
    BoxOption,
    Result,
    ResultSwap,
    Cow,
    CowSlice,
    BTreeSet,
    BinaryHeap,
    BTreeMap,
    Range,
    RangeInclusive,
    Compact,
    BoxCompact,
    Phantom,
    PhantomBox,
    BoxPhantom,
    Arr0,
    Arr1,
    Arr2,
    Arr65536,
    ArrMax,
    ArrBox1,
    BoxArr1,
    Tup1,
    Tup2,
    Tup2Same,
    Tup3Ph,
    Tup12,
    RefTup2,
    DGen,
    DGenBox,
    DSkip,
    DTree,
    DPair,
    BoxDTree,
    /// `n` is an index into the corpus
    Corpus,
}

pub const ALL_W: &[W] = &[
    W::Bare,
    W::Box,
    W::Rc,
    W::Arc,
    W::Ref,
    W::RefMut,
    W::BoxBox,
    W::RefArcBox,
    W::RcRef,
    W::Vec,
    W::VecDeque,
    W::Slice,
    W::BoxSlice,
    W::RefSlice,
    W::ArcVec,
    W::BoxVec,
    W::VecBox,
    W::VecVec,
    W::RefVecDeque,
    W::Option,
    W::OptionRc,
    W::OptionOption,
    W::BoxOption,
    W::Result,
    W::ResultSwap,
    W::Cow,
    W::CowSlice,
    W::BTreeSet,
    W::BinaryHeap,
    W::BTreeMap,
    W::Range,
    W::RangeInclusive,
    W::Compact,
    W::BoxCompact,
    W::Phantom,
    W::PhantomBox,
    W::BoxPhantom,
    W::Arr0,
    W::Arr1,
    W::Arr2,
    W::Arr65536,
    W::ArrMax,
    W::ArrBox1,
    W::BoxArr1,
    W::Tup1,
    W::Tup2,
    W::Tup2Same,
    W::Tup3Ph,
    W::Tup12,
    W::RefTup2,
    W::DGen,
    W::DGenBox,
    W::DSkip,
    W::DTree,
    W::DPair,
    W::BoxDTree,
];

/// Wrappers under which a reference is an *alias* of the bare node (C05).
pub const TRANSPARENT_W: &[W] = &[
    W::Box,
    W::Rc,
    W::Arc,
    W::Ref,
    W::RefMut,
    W::BoxBox,
    W::RefArcBox,
    W::RcRef,
];
/// Wrappers that are aliases of each other: one sequence identity.
pub const SEQ_W: &[W] = &[
    W::Vec,
    W::VecDeque,
    W::Slice,
    W::BoxSlice,
    W::RefSlice,
    W::ArcVec,
    W::BoxVec,
    W::RefVecDeque,
];
pub const PHANTOM_W: &[W] = &[W::Phantom, W::PhantomBox, W::BoxPhantom];

#[derive(Clone, Copy, PartialEq, Eq, PartialOrd, Ord, Debug, Hash, Serialize, Deserialize)]
pub struct TyRef {
    pub w: W,
    /// logical node index (`< K`), or corpus index for `W::Corpus`
    pub n: u8,
}

impl TyRef {
    pub fn bare(n: u8) -> Self {
        TyRef { w: W::Bare, n }
    }
    pub fn corpus(i: usize) -> Self {
        TyRef {
            w: W::Corpus,
            n: i as u8,
        }
    }
    /// Display form for samples and logs.
    pub fn show(&self) -> String {
        match self.w {
            W::Corpus => format!("corpus:{}", CORPUS[self.n as usize % CORPUS.len()].name),
            W::Bare => format!("Node{}", self.n),
            w => format!("{:?}<Node{}>", w, self.n),
        }
    }
}

fn meta_w<const C: usize, const C1: usize>(w: W) -> MetaType {
    type A<const C: usize> = Node<C>;
    match w {
        W::Bare => MetaType::new::<A<C>>(),
        W::Box => MetaType::new::<Box<A<C>>>(),
        W::Rc => MetaType::new::<Rc<A<C>>>(),
        W::Arc => MetaType::new::<Arc<A<C>>>(),
        W::Ref => MetaType::new::<&'static A<C>>(),
        W::RefMut => MetaType::new::<&'static mut A<C>>(),
        W::BoxBox => MetaType::new::<Box<Box<A<C>>>>(),
        W::RefArcBox => MetaType::new::<&'static Arc<Box<A<C>>>>(),
        W::RcRef => MetaType::new::<Rc<&'static A<C>>>(),
        W::Vec => MetaType::new::<Vec<A<C>>>(),
        W::VecDeque => MetaType::new::<VecDeque<A<C>>>(),
        W::Slice => MetaType::new::<[A<C>]>(),
        W::BoxSlice => MetaType::new::<Box<[A<C>]>>(),
        W::RefSlice => MetaType::new::<&'static [A<C>]>(),
        W::ArcVec => MetaType::new::<Arc<Vec<A<C>>>>(),
        W::BoxVec => MetaType::new::<Box<Vec<A<C>>>>(),
        W::VecBox => MetaType::new::<Vec<Box<A<C>>>>(),
        W::VecVec => MetaType::new::<Vec<Vec<A<C>>>>(),
        W::RefVecDeque => MetaType::new::<&'static VecDeque<A<C>>>(),
        W::Option => MetaType::new::<Option<A<C>>>(),
        W::OptionRc => MetaType::new::<Option<Rc<A<C>>>>(),
        W::OptionOption => MetaType::new::<Option<Option<A<C>>>>(),
        W::BoxOption => MetaType::new::<Box<Option<A<C>>>>(),
        W::Result => MetaType::new::<Result<A<C>, A<C1>>>(),
        W::ResultSwap => MetaType::new::<Result<A<C1>, A<C>>>(),
        W::Cow => MetaType::new::<Cow<'static, A<C>>>(),
        W::CowSlice => MetaType::new::<Cow<'static, [A<C>]>>(),
        W::BTreeSet => MetaType::new::<BTreeSet<A<C>>>(),
        W::BinaryHeap => MetaType::new::<BinaryHeap<A<C>>>(),
        W::BTreeMap => MetaType::new::<BTreeMap<A<C>, A<C1>>>(),
        W::Range => MetaType::new::<Range<A<C>>>(),
        W::RangeInclusive => MetaType::new::<RangeInclusive<A<C>>>(),
        W::Compact => MetaType::new::<scale::Compact<A<C>>>(),
        W::BoxCompact => MetaType::new::<Box<scale::Compact<A<C>>>>(),
        W::Phantom => MetaType::new::<PhantomData<A<C>>>(),
        W::PhantomBox => MetaType::new::<PhantomData<Box<A<C>>>>(),
        W::BoxPhantom => MetaType::new::<Box<PhantomData<A<C>>>>(),
        W::Arr0 => MetaType::new::<[A<C>; 0]>(),
        W::Arr1 => MetaType::new::<[A<C>; 1]>(),
        W::Arr2 => MetaType::new::<[A<C>; 2]>(),
        W::Arr65536 => MetaType::new::<[A<C>; 65536]>(),
        W::ArrMax => MetaType::new::<[A<C>; 4294967295]>(),
        W::ArrBox1 => MetaType::new::<[Box<A<C>>; 1]>(),
        W::BoxArr1 => MetaType::new::<Box<[A<C>; 1]>>(),
        W::Tup1 => MetaType::new::<(A<C>,)>(),
        W::Tup2 => MetaType::new::<(A<C>, A<C1>)>(),
        W::Tup2Same => MetaType::new::<(A<C>, A<C>)>(),
        W::Tup3Ph => MetaType::new::<(A<C>, PhantomData<A<C1>>, A<C1>)>(),
        W::Tup12 => MetaType::new::<(
            A<C>,
            A<C>,
            A<C>,
            A<C>,
            A<C>,
            A<C>,
            A<C>,
            A<C>,
            A<C>,
            A<C>,
            A<C>,
            A<C1>,
        )>(),
        W::RefTup2 => MetaType::new::<&'static (A<C>, A<C1>)>(),
        W::DGen => MetaType::new::<corpus::Gen<A<C>>>(),
        W::DGenBox => MetaType::new::<corpus::Gen<Box<A<C>>>>(),
        W::DSkip => MetaType::new::<corpus::SkipParam<A<C>>>(),
        W::DTree => MetaType::new::<corpus::Tree<A<C>>>(),
        W::DPair => MetaType::new::<corpus::Pair<A<C>, A<C1>>>(),
        W::BoxDTree => MetaType::new::<Box<corpus::Tree<A<C>>>>(),
        W::Corpus => unreachable!("corpus handled by caller"),
    }
}

macro_rules! dispatch_concrete {
    ($c:expr, $w:expr; $( $a:literal $b:literal ),* ) => {
        match $c {
            $( $a => meta_w::<$a, $b>($w), )*
            _ => unreachable!("concrete node index out of range"),
        }
    };
}

fn meta_concrete(c: usize, w: W) -> MetaType {
    dispatch_concrete!(c, w;
        0 1, 1 2, 2 3, 3 4, 4 5, 5 6, 6 7, 7 8, 8 9, 9 10, 10 11, 11 12, 12 13, 13 14, 14 15,
        15 16, 16 17, 17 18, 18 19, 19 20, 20 21, 21 22, 22 23, 23 24, 24 25, 25 26, 26 27,
        27 28, 28 29, 29 30, 30 31, 31 0)
}

// ---------------------------------------------------------------------------
// specifications
// ---------------------------------------------------------------------------

#[derive(Clone, PartialEq, Eq, Debug, Hash, Serialize, Deserialize)]
pub struct FieldSpec {
    pub name: Option<StrId>,
    pub ty: TyRef,
    pub type_name: Option<StrId>,
    pub docs: Vec<StrId>,
}

#[derive(Clone, PartialEq, Eq, Debug, Hash, Serialize, Deserialize)]
pub struct VariantSpec {
    pub name: StrId,
    pub fields: Vec<FieldSpec>,
    pub index: u8,
    pub docs: Vec<StrId>,
}

#[derive(Clone, PartialEq, Eq, Debug, Hash, Serialize, Deserialize)]
pub enum DefSpec {
    Composite(Vec<FieldSpec>),
    Variant(Vec<VariantSpec>),
    Sequence(TyRef),
    Array(u32, TyRef),
    Tuple(Vec<TyRef>),
    Compact(TyRef),
    BitSeq(TyRef, TyRef),
    Primitive(u8),
}

#[derive(Clone, PartialEq, Eq, Debug, Hash, Serialize, Deserialize)]
pub struct NodeSpec {
    pub path: Vec<StrId>,
    pub params: Vec<(StrId, Option<TyRef>)>,
    pub docs: Vec<StrId>,
    pub def: DefSpec,
}

impl NodeSpec {
    #[allow(dead_code)]
    pub fn leaf(prim: u8) -> Self {
        NodeSpec {
            path: vec![],
            params: vec![],
            docs: vec![],
            def: DefSpec::Primitive(prim),
        }
    }
    /// Every reference in the definition, in positional order: parameters,
    /// then the definition left to right.
    pub fn refs(&self) -> Vec<TyRef> {
        let mut out = Vec::new();
        for (_, t) in &self.params {
            if let Some(t) = t {
                out.push(*t);
            }
        }
        def_refs(&self.def, &mut out);
        out
    }
    pub fn refs_mut(&mut self) -> Vec<&mut TyRef> {
        let mut out: Vec<&mut TyRef> = Vec::new();
        for (_, t) in self.params.iter_mut() {
            if let Some(t) = t {
                out.push(t);
            }
        }
        match &mut self.def {
            DefSpec::Composite(fs) => out.extend(fs.iter_mut().map(|f| &mut f.ty)),
            DefSpec::Variant(vs) => {
                for v in vs.iter_mut() {
                    out.extend(v.fields.iter_mut().map(|f| &mut f.ty));
                }
            }
            DefSpec::Sequence(t) | DefSpec::Array(_, t) | DefSpec::Compact(t) => out.push(t),
            DefSpec::Tuple(ts) => out.extend(ts.iter_mut()),
            DefSpec::BitSeq(a, b) => {
                out.push(a);
                out.push(b);
            }
            DefSpec::Primitive(_) => {}
        }
        out
    }
}

pub fn def_refs(def: &DefSpec, out: &mut Vec<TyRef>) {
    match def {
        DefSpec::Composite(fs) => out.extend(fs.iter().map(|f| f.ty)),
        DefSpec::Variant(vs) => {
            for v in vs {
                out.extend(v.fields.iter().map(|f| f.ty));
            }
        }
        DefSpec::Sequence(t) | DefSpec::Array(_, t) | DefSpec::Compact(t) => out.push(*t),
        DefSpec::Tuple(ts) => out.extend(ts.iter().copied()),
        DefSpec::BitSeq(a, b) => {
            out.push(*a);
            out.push(*b);
        }
        DefSpec::Primitive(_) => {}
    }
}

pub const PRIMITIVES: [TypeDefPrimitive; 15] = [
    TypeDefPrimitive::Bool,
    TypeDefPrimitive::Char,
    TypeDefPrimitive::Str,
    TypeDefPrimitive::U8,
    TypeDefPrimitive::U16,
    TypeDefPrimitive::U32,
    TypeDefPrimitive::U64,
    TypeDefPrimitive::U128,
    TypeDefPrimitive::U256,
    TypeDefPrimitive::I8,
    TypeDefPrimitive::I16,
    TypeDefPrimitive::I32,
    TypeDefPrimitive::I64,
    TypeDefPrimitive::I128,
    TypeDefPrimitive::I256,
];

// ---------------------------------------------------------------------------
// the per-run table
// ---------------------------------------------------------------------------

pub struct Universe {
    /// indexed by logical node
    pub specs: Vec<NodeSpec>,
    /// logical -> concrete
    pub perm: [u8; K],
    /// concrete -> logical
    pub inv: [u8; K],
    /// evaluations of `type_info()` per logical node while armed
    pub counters: [Cell<u32>; K],
    pub armed: Cell<bool>,
    /// evaluations while disarmed (oracle side), for the evidence only
    pub oracle_evals: Cell<u64>,
    /// fault injection: logical nodes whose `type_info()` unwinds at its
    /// first armed evaluation (a transient failure of user code in the middle
    /// of a registration)
    pub unwind_once: RefCell<Vec<u8>>,
    pub unwinds: Cell<u32>,
}

/// Payload of an injected unwind, to tell it from a genuine panic.
pub struct InjectedUnwind(#[allow(dead_code)] pub u8);

thread_local! {
    static UNI: RefCell<Option<Rc<Universe>>> = const { RefCell::new(None) };
}

pub fn identity_perm() -> [u8; K] {
    let mut p = [0u8; K];
    for (i, x) in p.iter_mut().enumerate() {
        *x = i as u8;
    }
    p
}

pub fn install(specs: Vec<NodeSpec>, perm: [u8; K]) {
    assert_eq!(specs.len(), K, "a universe always defines all K nodes");
    let mut inv = [0u8; K];
    let mut seen = [false; K];
    for (l, &c) in perm.iter().enumerate() {
        assert!((c as usize) < K && !seen[c as usize], "perm is not a permutation");
        seen[c as usize] = true;
        inv[c as usize] = l as u8;
    }
    let u = Universe {
        specs,
        perm,
        inv,
        counters: std::array::from_fn(|_| Cell::new(0)),
        armed: Cell::new(false),
        oracle_evals: Cell::new(0),
        unwind_once: RefCell::new(Vec::new()),
        unwinds: Cell::new(0),
    };
    UNI.with(|x| *x.borrow_mut() = Some(Rc::new(u)));
}

pub fn uninstall() {
    UNI.with(|x| *x.borrow_mut() = None);
}

fn uni() -> Rc<Universe> {
    UNI.with(|x| x.borrow().as_ref().expect("no universe installed").clone())
}

/// Arm / disarm the evaluation counters; returns the previous state.
pub fn arm(on: bool) -> bool {
    let u = uni();
    u.armed.replace(on)
}

pub fn counters() -> [u32; K] {
    let u = uni();
    std::array::from_fn(|i| u.counters[i].get())
}

pub fn reset_counters() {
    let u = uni();
    for c in u.counters.iter() {
        c.set(0);
    }
}

/// Arm the unwind fault for these logical nodes (each fires once).
pub fn plan_unwinds(nodes: &[u8]) {
    *uni().unwind_once.borrow_mut() = nodes.to_vec();
}

pub fn unwind_still_planned(node: u8) -> bool {
    uni().unwind_once.borrow().contains(&node)
}

pub fn unwinds_fired() -> u32 {
    uni().unwinds.get()
}

#[allow(dead_code)]
pub fn spec_of(logical: u8) -> NodeSpec {
    uni().specs[logical as usize].clone()
}

/// Logical index of the "second" node of the two-parameter wrappers of `n`.
pub fn second_of(n: u8) -> u8 {
    let u = uni();
    let c = u.perm[n as usize % K] as usize;
    u.inv[(c + 1) % K]
}

/// The `MetaType` a reference denotes under the current run's permutation.
pub fn meta(t: TyRef) -> MetaType {
    if t.w == W::Corpus {
        return (CORPUS[t.n as usize % CORPUS.len()].meta)();
    }
    let c = uni().perm[t.n as usize % K] as usize;
    meta_concrete(c, t.w)
}

fn strs(ids: &[StrId]) -> Vec<&'static str> {
    ids.iter().map(|&i| s(i)).collect()
}

// As in ptype.rs: construct, then assign every public field, so that what the
// specification says is what the definition holds.
fn build_field(f: &FieldSpec) -> scale_info::Field {
    let mut out = scale_info::Field::new(None, meta(f.ty), None, Vec::new());
    out.name = f.name.map(s);
    out.type_name = f.type_name.map(s);
    out.docs = strs(&f.docs);
    out
}

pub fn build_variant(v: &VariantSpec) -> scale_info::Variant {
    let mut out = scale_info::Variant::new(s(v.name), Vec::new(), v.index, Vec::new());
    out.name = s(v.name);
    out.fields = v.fields.iter().map(build_field).collect();
    out.index = v.index;
    out.docs = strs(&v.docs);
    out
}

pub fn build_field_pub(f: &FieldSpec) -> scale_info::Field {
    build_field(f)
}

pub fn build_def(d: &DefSpec) -> TypeDef {
    match d {
        DefSpec::Composite(fs) => {
            let mut d = TypeDefComposite::new(Vec::new());
            d.fields = fs.iter().map(build_field).collect();
            d.into()
        }
        DefSpec::Variant(vs) => {
            let mut d = TypeDefVariant::new(Vec::new());
            d.variants = vs.iter().map(build_variant).collect();
            d.into()
        }
        DefSpec::Sequence(t) => TypeDefSequence::new(meta(*t)).into(),
        DefSpec::Array(n, t) => {
            let mut d = TypeDefArray::new(0, meta(*t));
            d.len = *n;
            d.into()
        }
        // not `TypeDefTuple::new`: that constructor erases PhantomData members,
        // a hand-written impl need not
        DefSpec::Tuple(ts) => {
            let mut d = TypeDefTuple::new(Vec::new());
            d.fields = ts.iter().map(|t| meta(*t)).collect();
            TypeDef::Tuple(d)
        }
        DefSpec::Compact(t) => TypeDefCompact::new(meta(*t)).into(),
        DefSpec::BitSeq(a, b) => {
            let mut d = TypeDefBitSequence::new::<u8, u8>();
            d.bit_store_type = meta(*a);
            d.bit_order_type = meta(*b);
            TypeDef::BitSequence(d)
        }
        DefSpec::Primitive(p) => PRIMITIVES[*p as usize % 15].clone().into(),
    }
}

pub fn build_param(p: &(StrId, Option<TyRef>)) -> TypeParameter {
    let mut out = TypeParameter::new(s(p.0), None);
    out.name = s(p.0);
    out.ty = p.1.map(meta);
    out
}

pub fn build_type(spec: &NodeSpec) -> Type {
    let mut path = Path::from_segments_unchecked(Vec::<&'static str>::new());
    path.segments = spec.path.iter().map(|&i| s(i)).collect();
    let mut out = Type::new(path.clone(), Vec::new(), build_def(&spec.def), Vec::new());
    out.path = path;
    out.type_params = spec.params.iter().map(build_param).collect();
    out.type_def = build_def(&spec.def);
    out.docs = strs(&spec.docs);
    out
}

/// `type_info()` of concrete node `c`.
fn definition_of(c: usize) -> Type {
    let u = uni();
    let l = u.inv[c] as usize;
    if u.armed.get() {
        u.counters[l].set(u.counters[l].get() + 1);
        let fire = {
            let mut plan = u.unwind_once.borrow_mut();
            match plan.iter().position(|&x| x as usize == l) {
                Some(i) => {
                    plan.swap_remove(i);
                    true
                }
                None => false,
            }
        };
        if fire {
            u.unwinds.set(u.unwinds.get() + 1);
            drop(u);
            std::panic::resume_unwind(Box::new(InjectedUnwind(l as u8)));
        }
    } else {
        u.oracle_evals.set(u.oracle_evals.get() + 1);
    }
    build_type(&u.specs[l])
}

// ---------------------------------------------------------------------------
// identity model (C05): exact type expressions and their identity keys,
// written from the alias table in the property statement
// ---------------------------------------------------------------------------

/// An exact Rust type, as an expression.
#[derive(Clone, PartialEq, Eq, PartialOrd, Ord, Debug, Hash)]
pub enum Tx {
    /// logical node
    Node(u8),
    /// a nominal or primitive type, unique by name
    Named(&'static str),
    /// a constructor applied to arguments
    App(&'static str, Vec<Tx>),
}

fn app1(c: &'static str, a: Tx) -> Tx {
    Tx::App(c, vec![a])
}

/// The exact type expression a reference denotes.
pub fn tx(t: TyRef) -> Tx {
    if t.w == W::Corpus {
        return (CORPUS[t.n as usize % CORPUS.len()].tx)();
    }
    let a = || Tx::Node(t.n % K as u8);
    let b = || Tx::Node(second_of(t.n));
    let ph = |x: Tx| app1("PhantomData", x);
    match t.w {
        W::Bare => a(),
        W::Box => app1("Box", a()),
        W::Rc => app1("Rc", a()),
        W::Arc => app1("Arc", a()),
        W::Ref => app1("Ref", a()),
        W::RefMut => app1("RefMut", a()),
        W::BoxBox => app1("Box", app1("Box", a())),
        W::RefArcBox => app1("Ref", app1("Arc", app1("Box", a()))),
        W::RcRef => app1("Rc", app1("Ref", a())),
        W::Vec => app1("Vec", a()),
        W::VecDeque => app1("VecDeque", a()),
        W::Slice => app1("Slice", a()),
        W::BoxSlice => app1("Box", app1("Slice", a())),
        W::RefSlice => app1("Ref", app1("Slice", a())),
        W::ArcVec => app1("Arc", app1("Vec", a())),
        W::BoxVec => app1("Box", app1("Vec", a())),
        W::VecBox => app1("Vec", app1("Box", a())),
        W::VecVec => app1("Vec", app1("Vec", a())),
        W::RefVecDeque => app1("Ref", app1("VecDeque", a())),
        W::Option => app1("Option", a()),
        W::OptionRc => app1("Option", app1("Rc", a())),
        W::OptionOption => app1("Option", app1("Option", a())),
        W::BoxOption => app1("Box", app1("Option", a())),
        W::Result => Tx::App("Result", vec![a(), b()]),
        W::ResultSwap => Tx::App("Result", vec![b(), a()]),
        W::Cow => app1("Cow", a()),
        W::CowSlice => app1("Cow", app1("Slice", a())),
        W::BTreeSet => app1("BTreeSet", a()),
        W::BinaryHeap => app1("BinaryHeap", a()),
        W::BTreeMap => Tx::App("BTreeMap", vec![a(), b()]),
        W::Range => app1("Range", a()),
        W::RangeInclusive => app1("RangeInclusive", a()),
        W::Compact => app1("Compact", a()),
        W::BoxCompact => app1("Box", app1("Compact", a())),
        W::Phantom => ph(a()),
        W::PhantomBox => ph(app1("Box", a())),
        W::BoxPhantom => app1("Box", ph(a())),
        W::Arr0 => app1("Array:0", a()),
        W::Arr1 => app1("Array:1", a()),
        W::Arr2 => app1("Array:2", a()),
        W::Arr65536 => app1("Array:65536", a()),
        W::ArrMax => app1("Array:4294967295", a()),
        W::ArrBox1 => app1("Array:1", app1("Box", a())),
        W::BoxArr1 => app1("Box", app1("Array:1", a())),
        W::Tup1 => Tx::App("Tuple", vec![a()]),
        W::Tup2 => Tx::App("Tuple", vec![a(), b()]),
        W::Tup2Same => Tx::App("Tuple", vec![a(), a()]),
        W::Tup3Ph => Tx::App("Tuple", vec![a(), ph(b()), b()]),
        W::Tup12 => {
            let mut v = vec![a(); 11];
            v.push(b());
            Tx::App("Tuple", v)
        }
        W::RefTup2 => app1("Ref", Tx::App("Tuple", vec![a(), b()])),
        W::DGen => app1("Gen", a()),
        W::DGenBox => app1("Gen", app1("Box", a())),
        W::DSkip => app1("SkipParam", a()),
        W::DTree => app1("Tree", a()),
        W::DPair => Tx::App("Pair", vec![a(), b()]),
        W::BoxDTree => app1("Box", app1("Tree", a())),
        W::Corpus => unreachable!(),
    }
}

/// Identity key of an exact type, from the statement of C05: Box, Rc, Arc, &
/// and &mut of T are T; Vec, VecDeque and slices of T are one sequence
/// identity per T; String is str; every PhantomData is one identity; anything
/// else is itself (different constructors or different generic arguments are
/// different identities).
pub fn key(t: &Tx) -> Tx {
    match t {
        Tx::App(c, a) if matches!(*c, "Box" | "Rc" | "Arc" | "Ref" | "RefMut") => key(&a[0]),
        Tx::App(c, a) if matches!(*c, "Vec" | "VecDeque" | "Slice") => {
            Tx::App("Slice", vec![a[0].clone()])
        }
        Tx::App("PhantomData", _) => Tx::Named("PhantomData"),
        Tx::Named("String") => Tx::Named("str"),
        other => other.clone(),
    }
}

#[allow(dead_code)]
pub fn oracle_evals() -> u64 {
    uni().oracle_evals.get()
}
