//! Shared plumbing: property masks, violations, reach probes, the event-log
//! hash chain used by the determinism self-test, panic capture.

use crate::rng::Fnv;
use std::cell::RefCell;
use std::collections::BTreeMap;

pub const PROPS: [&str; 8] = ["C01", "C02", "C05", "C07", "C10", "C11", "C12", "C14"];

#[derive(Clone, Copy, PartialEq, Eq, Debug)]
pub struct Mask(pub u32);

impl Mask {
    pub const ALL: Mask = Mask(0xff);
    pub fn of(p: &str) -> Option<Mask> {
        PROPS.iter().position(|x| *x == p).map(|i| Mask(1 << i))
    }
    pub fn has(&self, p: &str) -> bool {
        match PROPS.iter().position(|x| *x == p) {
            Some(i) => self.0 & (1 << i) != 0,
            None => false,
        }
    }
}

#[derive(Clone, Debug, PartialEq, Eq, serde::Serialize, serde::Deserialize)]
pub struct Violation {
    pub property: String,
    /// stable name of the oracle clause that failed; minimisation keeps it fixed
    pub clause: String,
    pub detail: String,
    /// index of the fault case that failed, when there is one (lets the
    /// minimiser go straight to it)
    #[serde(default)]
    pub case: Option<usize>,
}

pub type Check = Result<(), Violation>;

/// Report a failed clause of `prop` if that property is being checked.
pub fn fail(mask: Mask, prop: &'static str, clause: &str, detail: impl FnOnce() -> String) -> Check {
    if mask.has(prop) {
        Err(Violation {
            property: prop.to_string(),
            clause: clause.to_string(),
            detail: detail(),
            case: CASE.with(|c| c.get()),
        })
    } else {
        probe("suppressed.other_property_clause_failed");
        Ok(())
    }
}

thread_local! {
    static PROBES: RefCell<BTreeMap<&'static str, u64>> = const { RefCell::new(BTreeMap::new()) };
    static LOG: RefCell<Fnv> = RefCell::new(Fnv::new());
    static PANIC_MSG: RefCell<Option<String>> = const { RefCell::new(None) };
    static CASE: std::cell::Cell<Option<usize>> = const { std::cell::Cell::new(None) };
}

/// Announce which fault case is being executed (None: outside the cases).
pub fn set_case(c: Option<usize>) {
    CASE.with(|x| x.set(c));
}

#[inline]
pub fn probe(name: &'static str) {
    probe_n(name, 1);
}

pub fn probe_n(name: &'static str, n: u64) {
    PROBES.with(|p| *p.borrow_mut().entry(name).or_insert(0) += n);
}

pub fn probe_max(name: &'static str, v: u64) {
    PROBES.with(|p| {
        let mut p = p.borrow_mut();
        let e = p.entry(name).or_insert(0);
        if v > *e {
            *e = v;
        }
    });
}

pub fn take_probes() -> BTreeMap<&'static str, u64> {
    PROBES.with(|p| std::mem::take(&mut *p.borrow_mut()))
}

pub fn log_reset() {
    LOG.with(|l| *l.borrow_mut() = Fnv::new());
}
pub fn log_u64(x: u64) {
    LOG.with(|l| l.borrow_mut().u64(x));
}
pub fn log_bytes(b: &[u8]) {
    LOG.with(|l| {
        let mut l = l.borrow_mut();
        l.u64(b.len() as u64);
        l.bytes(b)
    });
}
pub fn log_value() -> u64 {
    LOG.with(|l| l.borrow().finish64())
}

/// Install a silent panic hook that records message and location; library
/// panics are caught by `catch` and turned into violations.
pub fn install_panic_hook() {
    std::panic::set_hook(Box::new(|info| {
        let loc = info
            .location()
            .map(|l| format!("{}:{}", l.file(), l.line()))
            .unwrap_or_default();
        let msg = if let Some(s) = info.payload().downcast_ref::<&str>() {
            (*s).to_string()
        } else if let Some(s) = info.payload().downcast_ref::<String>() {
            s.clone()
        } else {
            "<non-string panic>".to_string()
        };
        PANIC_MSG.with(|p| *p.borrow_mut() = Some(format!("{} @ {}", msg, loc)));
    }));
}

/// Run `f`, turning an unwinding panic into `Err(message @ location)`.
pub fn catch<T>(f: impl FnOnce() -> T) -> Result<T, String> {
    match std::panic::catch_unwind(std::panic::AssertUnwindSafe(f)) {
        Ok(v) => Ok(v),
        Err(_) => Err(PANIC_MSG
            .with(|p| p.borrow_mut().take())
            .unwrap_or_else(|| "<panic>".into())),
    }
}

/// The last panic message the hook recorded (for harness panics).
pub fn last_panic() -> String {
    PANIC_MSG.with(|p| p.borrow().clone()).unwrap_or_else(|| "<no message recorded>".into())
}

/// Location part of a captured panic message, used as the (stable) clause.
pub fn panic_clause(msg: &str) -> String {
    match msg.rsplit_once(" @ ") {
        Some((_, loc)) => format!("panic@{}", loc),
        None => "panic".to_string(),
    }
}
