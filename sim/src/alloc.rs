//! Counting global allocator.  Thread-local live / peak counters, armed only
//! around the call under test (workers are single threaded).  It never steers
//! a run: the only thing it can do besides counting is refuse an absurd
//! request while armed, which ends the process (allocation failure aborts in
//! Rust) after leaving a marker for the supervisor.

use std::alloc::{GlobalAlloc, Layout, System};
use std::cell::Cell;

/// A single request above this, while armed, is refused.
pub const HARD_CAP: usize = 1 << 30;

thread_local! {
    static ARMED: Cell<bool> = const { Cell::new(false) };
    static LIVE: Cell<isize> = const { Cell::new(0) };
    static PEAK: Cell<isize> = const { Cell::new(0) };
    static LARGEST: Cell<usize> = const { Cell::new(0) };
    static COUNT: Cell<u64> = const { Cell::new(0) };
}

pub struct Counting;

#[inline]
fn on_alloc(size: usize) -> bool {
    // `try_with`: the allocator may be called during thread teardown
    ARMED
        .try_with(|a| {
            if !a.get() {
                return true;
            }
            if size > HARD_CAP {
                return false;
            }
            LIVE.with(|l| {
                let v = l.get() + size as isize;
                l.set(v);
                PEAK.with(|p| {
                    if v > p.get() {
                        p.set(v)
                    }
                });
            });
            LARGEST.with(|m| {
                if size > m.get() {
                    m.set(size)
                }
            });
            COUNT.with(|c| c.set(c.get() + 1));
            true
        })
        .unwrap_or(true)
}

#[inline]
fn on_free(size: usize) {
    let _ = ARMED.try_with(|a| {
        if a.get() {
            LIVE.with(|l| l.set(l.get() - size as isize));
        }
    });
}

fn refuse(size: usize) {
    // allocation-free marker on stderr; the supervisor reads the status file
    // for the run index
    use std::io::Write;
    let mut buf = [0u8; 64];
    let mut cur = std::io::Cursor::new(&mut buf[..]);
    let _ = write!(cur, "ALLOC_CAP size={}\n", size);
    let n = cur.position() as usize;
    let _ = std::io::stderr().write_all(&buf[..n]);
}

unsafe impl GlobalAlloc for Counting {
    unsafe fn alloc(&self, layout: Layout) -> *mut u8 {
        if !on_alloc(layout.size()) {
            refuse(layout.size());
            return std::ptr::null_mut();
        }
        System.alloc(layout)
    }
    unsafe fn dealloc(&self, ptr: *mut u8, layout: Layout) {
        on_free(layout.size());
        System.dealloc(ptr, layout)
    }
    unsafe fn alloc_zeroed(&self, layout: Layout) -> *mut u8 {
        if !on_alloc(layout.size()) {
            refuse(layout.size());
            return std::ptr::null_mut();
        }
        System.alloc_zeroed(layout)
    }
    unsafe fn realloc(&self, ptr: *mut u8, layout: Layout, new_size: usize) -> *mut u8 {
        if new_size > layout.size() {
            if !on_alloc(new_size - layout.size()) {
                refuse(new_size);
                return std::ptr::null_mut();
            }
        } else {
            on_free(layout.size() - new_size);
        }
        System.realloc(ptr, layout, new_size)
    }
}

#[derive(Clone, Copy, Debug, Default)]
pub struct Usage {
    /// peak of (live bytes - live bytes at arming)
    pub peak: usize,
    pub largest: usize,
    #[allow(dead_code)]
    pub allocations: u64,
}

/// Run `f` with the counters armed and return what it allocated at peak.
pub fn measure<T>(f: impl FnOnce() -> T) -> (T, Usage) {
    LIVE.with(|l| l.set(0));
    PEAK.with(|p| p.set(0));
    LARGEST.with(|m| m.set(0));
    COUNT.with(|c| c.set(0));
    ARMED.with(|a| a.set(true));
    // disarm even when `f` unwinds
    struct Disarm;
    impl Drop for Disarm {
        fn drop(&mut self) {
            ARMED.with(|a| a.set(false));
        }
    }
    let guard = Disarm;
    let out = f();
    drop(guard);
    let u = Usage {
        peak: PEAK.with(|p| p.get()).max(0) as usize,
        largest: LARGEST.with(|m| m.get()),
        allocations: COUNT.with(|c| c.get()),
    };
    (out, u)
}
