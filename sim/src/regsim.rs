//! Engine 1: metadata assembly as a small distributed system.  Simulated
//! clients send registration requests through a simulated network (reordering,
//! duplication, delay) to one real `Registry`; a replica receives the same
//! messages in another order; the published `PortableRegistry` then runs
//! through a consumer chain (retain / SCALE round trip / JSON round trip /
//! builder rebuild).  Monitors for C01, C02, C05, C10, C11 run after every
//! event.

use crate::core::{self, fail, probe, probe_max, probe_n, Check, Mask, Violation};
use crate::oracle::{self, cmp_def, cmp_field, cmp_fields, cmp_param, cmp_type, cmp_variant, Cmp};
use crate::pool::s;
use crate::ptype::{PReg, PType};
use crate::reggen::{ChainStep, Delivery, ItemSpec, RegScenario, Req};
use crate::rng::{hash_of, Fnv};
use crate::universe::{self, key, meta, tx, TyRef, Tx, K, PHANTOM_W, SEQ_W, TRANSPARENT_W, W};
use scale::{Decode, Encode};
use scale_info::{
    form::PortableForm, Field, IntoPortable, MetaType, PortableRegistry, PortableRegistryBuilder,
    PortableType, Registry, Type,
};
use std::any::TypeId;
use std::collections::{BTreeMap, BTreeSet};

pub const F_NONEMPTY: u32 = 1;
pub const F_MULTI_EVENT: u32 = 2;
pub const F_HAS_CYCLE: u32 = 4;
pub const F_HAS_ALIAS: u32 = 8;
pub const F_REDELIVERY: u32 = 16;
pub const F_RETAIN_PARTIAL: u32 = 32;
pub const F_REORDERED: u32 = 64;
pub const F_CHAIN: u32 = 128;
pub const F_FAULTED: u32 = 256;

#[derive(Clone, Debug, Default)]
pub struct RegResult {
    pub flags: u32,
    pub scenario_hash: u64,
    pub order_hash: u64,
    pub graph_hash: u64,
    pub registry_hash: u64,
    pub log_hash: u64,
    pub events: u64,
    pub entries: u64,
    /// the published registry and the final registry after the chain
    pub published: Option<PortableRegistry>,
    pub after_chain: Option<PortableRegistry>,
}

// --- a user-defined metadata struct implementing the public IntoPortable -----

struct Pallet {
    name: &'static str,
    calls: Option<MetaType>,
    event: Option<MetaType>,
    storage: Vec<Field>,
    constants: Vec<(&'static str, MetaType)>,
}

struct PalletPortable {
    name: String,
    calls: Option<u32>,
    event: Option<u32>,
    storage: Vec<Field<PortableForm>>,
    constants: Vec<(String, u32)>,
}

impl IntoPortable for Pallet {
    type Output = PalletPortable;
    fn into_portable(self, registry: &mut Registry) -> PalletPortable {
        PalletPortable {
            name: self.name.into_portable(registry),
            calls: self.calls.map(|c| registry.register_type(&c).id),
            event: self.event.map(|c| registry.register_type(&c).id),
            storage: registry.map_into_portable(self.storage),
            constants: self
                .constants
                .into_iter()
                .map(|(n, t)| (n.into_portable(registry), registry.register_type(&t).id))
                .collect(),
        }
    }
}

// ---------------------------------------------------------------------------

/// What applying one request returned: positional (meta type, id) pairs, and
/// a mismatch in the non-id parts of a converted item, if any.
struct Applied {
    pairs: Vec<(MetaType, u32)>,
    mismatch: Option<oracle::Mismatch>,
    /// positions could not be aligned: `pairs` is incomplete
    structural: bool,
    /// the request's own references, aligned with `pairs` when that is known
    refs: Option<Vec<TyRef>>,
}

/// Apply a request to a registry through the public API only.  The evaluation
/// counters are armed exactly while library code runs.
fn apply(reg: &mut Registry, req: &Req) -> Applied {
    let mut c = Cmp::default();
    let mut mismatch: Option<oracle::Mismatch> = None;
    let mut refs = Some(req.refs());
    let lib = |f: &mut dyn FnMut()| {
        let was = universe::arm(true);
        f();
        universe::arm(was);
    };
    match req {
        Req::Register(t) => {
            let m = meta(*t);
            let mut id = 0;
            lib(&mut || id = reg.register_type(&m).id);
            c.pairs.push((m, id));
        }
        Req::RegisterMany(ts) => {
            let ms: Vec<MetaType> = ts.iter().map(|t| meta(*t)).collect();
            let mut ids = Vec::new();
            lib(&mut || ids = reg.register_types(ms.clone()));
            if ids.len() != ms.len() {
                mismatch = Some(("register_types.len", format!("{} vs {}", ms.len(), ids.len())));
                c.structural = true;
            }
            c.pairs.extend(ms.into_iter().zip(ids.into_iter().map(|x| x.id)));
        }
        Req::Item(item) => match item {
            ItemSpec::Field(f) => {
                let built = universe::build_field_pub(f);
                let mut out = None;
                lib(&mut || out = Some(universe::build_field_pub(f).into_portable(reg)));
                cmp_field(&built, &out.unwrap(), &mut c);
            }
            ItemSpec::Variant(v) => {
                let built = universe::build_variant(v);
                let mut out = None;
                lib(&mut || out = Some(universe::build_variant(v).into_portable(reg)));
                cmp_variant(&built, &out.unwrap(), &mut c);
            }
            ItemSpec::Param(n, t) => {
                let built = universe::build_param(&(*n, *t));
                let mut out = None;
                lib(&mut || out = Some(universe::build_param(&(*n, *t)).into_portable(reg)));
                cmp_param(&built, &out.unwrap(), &mut c);
            }
            ItemSpec::TypeOf(t) => {
                let m = meta(*t);
                let built = m.type_info();
                let again = m.type_info();
                let mut out = None;
                let mut slot = Some(again);
                lib(&mut || out = Some(slot.take().unwrap().into_portable(reg)));
                cmp_type(&built, &out.unwrap(), &mut c);
                refs = None;
            }
            ItemSpec::Def(d) => {
                let built = universe::build_def(d);
                let mut out = None;
                lib(&mut || out = Some(universe::build_def(d).into_portable(reg)));
                cmp_def(&built, &out.unwrap(), &mut c);
            }
            ItemSpec::Fields(fs) => {
                let built: Vec<Field> = fs.iter().map(universe::build_field_pub).collect();
                let mut out = Vec::new();
                lib(&mut || {
                    out = reg.map_into_portable(fs.iter().map(universe::build_field_pub))
                });
                cmp_fields(&built, &out, &mut c);
            }
            ItemSpec::Pallet { name, calls, event, storage, constants } => {
                let mk = || Pallet {
                    name: s(*name),
                    calls: calls.map(meta),
                    event: event.map(meta),
                    storage: storage.iter().map(universe::build_field_pub).collect(),
                    constants: constants.iter().map(|(n, t)| (s(*n), meta(*t))).collect(),
                };
                let built = mk();
                let mut out = None;
                lib(&mut || out = Some(mk().into_portable(reg)));
                let out = out.unwrap();
                let mut mm = None;
                if out.name != built.name {
                    mm = Some(("pallet.name", format!("{:?} vs {:?}", built.name, out.name)));
                }
                match (built.calls, out.calls) {
                    (Some(a), Some(b)) => c.pairs.push((a, b)),
                    (None, None) => {}
                    _ => {
                        mm = Some(("pallet.calls", String::new()));
                        c.structural = true;
                    }
                }
                match (built.event, out.event) {
                    (Some(a), Some(b)) => c.pairs.push((a, b)),
                    (None, None) => {}
                    _ => {
                        mm = Some(("pallet.event", String::new()));
                        c.structural = true;
                    }
                }
                cmp_fields(&built.storage, &out.storage, &mut c);
                if built.constants.len() != out.constants.len() {
                    mm = Some(("pallet.constants.len", String::new()));
                    c.structural = true;
                }
                for (a, b) in built.constants.iter().zip(&out.constants) {
                    if a.0 != b.0.as_str() {
                        mm = Some(("pallet.constant.name", format!("{:?} vs {:?}", a.0, b.0)));
                    }
                    c.pairs.push((a.1, b.1));
                }
                mismatch = mm;
            }
        },
    }
    let mismatch = mismatch.or(c.first.clone());
    Applied { pairs: c.pairs, mismatch, structural: c.structural, refs }
}

/// Do the compile-time definitions of two references differ?  (Evaluated by
/// the oracle, counters disarmed; nested types compare by identity.)
fn definitions_differ(a: TyRef, b: TyRef) -> bool {
    meta(a).type_info() != meta(b).type_info()
}

/// One registry with its monitors.
struct Site {
    name: &'static str,
    reg: Registry,
    snap: Vec<Type<PortableForm>>,
    psnap: Vec<PType>,
    tid_to_id: BTreeMap<TypeId, u32>,
    id_to_tid: BTreeMap<u32, TypeId>,
    key_to_id: BTreeMap<Tx, u32>,
    id_to_key: BTreeMap<u32, (Tx, TyRef)>,
    held: Vec<(MetaType, u32)>,
    /// number of entries after each delivery
    sizes: Vec<usize>,
    flags: u32,
    /// the compile-time walk could not be completed (positions not aligned,
    /// or an id that does not resolve): the reachable-identity count is unknown
    closure_incomplete: bool,
}

impl Site {
    fn new(name: &'static str) -> Self {
        universe::reset_counters();
        Site {
            name,
            reg: Registry::new(),
            snap: Vec::new(),
            psnap: Vec::new(),
            tid_to_id: BTreeMap::new(),
            id_to_tid: BTreeMap::new(),
            key_to_id: BTreeMap::new(),
            id_to_key: BTreeMap::new(),
            held: Vec::new(),
            sizes: Vec::new(),
            flags: 0,
            closure_incomplete: false,
        }
    }

    fn deliver(&mut self, e: usize, d: &Delivery, mask: Mask) -> Check {
        let n0 = self.snap.len();
        // is the root already present, by the identity model or by TypeId?
        let known = match &d.req {
            Req::Register(t) => {
                let k = key(&tx(*t));
                let by_key = self.key_to_id.contains_key(&k);
                let by_tid = self.tid_to_id.contains_key(&meta(*t).type_id());
                if !by_key && !by_tid && (TRANSPARENT_W.contains(&t.w) || SEQ_W.contains(&t.w)) {
                    probe("reach.alias_registered_before_target");
                }
                by_key || by_tid
            }
            _ => false,
        };
        if known {
            self.flags |= F_REDELIVERY;
            probe("reach.redelivery_of_known_identity");
            if d.dup && self.sizes.len() >= 2 {
                probe("reach.duplicate_after_unrelated_registrations");
            }
        }
        if let Req::RegisterMany(ts) = &d.req {
            let set: BTreeSet<_> = ts.iter().collect();
            if set.len() < ts.len() {
                probe("reach.register_many_same_type_twice");
            }
        }
        for t in d.req.refs() {
            if TRANSPARENT_W.contains(&t.w) || SEQ_W.contains(&t.w) || PHANTOM_W.contains(&t.w) {
                self.flags |= F_HAS_ALIAS;
            }
        }

        let applied = apply(&mut self.reg, &d.req);
        core::log_u64(e as u64);
        for (_, id) in &applied.pairs {
            core::log_u64(*id as u64);
        }

        if let Some((clause, detail)) = &applied.mismatch {
            fail(mask, "C02", &format!("item.{}", clause), || {
                format!("{} event {}: {}", self.name, e, detail)
            })?;
        }
        if applied.structural {
            self.closure_incomplete = true;
        }

        // --- observe Registry::types() -----------------------------------
        let mut n = 0usize;
        let mut new_from = None;
        for (i, (symbol, ty)) in self.reg.types().enumerate() {
            n = i + 1;
            if symbol.id as usize != i {
                fail(mask, "C01", "dense.registry", || {
                    format!("{} event {}: position {} carries id {}", self.name, e, i, symbol.id)
                })?;
            }
            if i < n0 {
                if *ty != self.snap[i] {
                    let f = || {
                        format!(
                            "{} event {}: entry {} changed from {:?} to {:?}",
                            self.name,
                            e,
                            i,
                            self.psnap[i],
                            PType::from_lib(ty)
                        )
                    };
                    fail(mask, "C11", "prefix.entry_altered", f)?;
                    if known {
                        fail(mask, "C05", "idempotent.entry_altered", f)?;
                    }
                }
            } else if new_from.is_none() {
                new_from = Some(i);
            }
        }
        if n < n0 {
            fail(mask, "C11", "prefix.shrunk", || {
                format!("{} event {}: {} entries, had {}", self.name, e, n, n0)
            })?;
            fail(mask, "C01", "dense.registry_shrunk", || {
                format!("{} event {}: {} entries, had {}", self.name, e, n, n0)
            })?;
            // keep the monitors consistent with what is observable
            self.snap.truncate(n);
            self.psnap.truncate(n);
        }
        if new_from.is_some() {
            let fresh: Vec<(Type<PortableForm>, PType)> = self
                .reg
                .types()
                .skip(n0)
                .map(|(_, ty)| (ty.clone(), PType::from_lib(ty)))
                .collect();
            for (a, b) in fresh {
                self.snap.push(a);
                self.psnap.push(b);
            }
        }
        // closed: new entries mention only ids < n (old ones were closed and
        // n only grows)
        for i in n0.min(n)..n {
            for id in self.psnap[i].ids() {
                if id as usize >= n {
                    fail(mask, "C01", "closed.registry", || {
                        format!(
                            "{} event {}: entry {} mentions id {} of {} entries",
                            self.name, e, i, id, n
                        )
                    })?;
                }
            }
        }

        // --- C05.1: identity model ------------------------------------------
        if let Some(refs) = &applied.refs {
            if refs.len() == applied.pairs.len() {
                for (t, (m, id)) in refs.iter().zip(&applied.pairs) {
                    if meta(*t) != *m {
                        continue; // positional alignment not known for this item
                    }
                    let k = key(&tx(*t));
                    match self.key_to_id.get(&k) {
                        Some(old) if old != id => {
                            fail(mask, "C05", "alias_ids_differ", || {
                                format!(
                                    "{} event {}: {} (identity {:?}) got id {}, that identity had id {}",
                                    self.name, e, t.show(), k, id, old
                                )
                            })?;
                        }
                        Some(_) => {}
                        None => {
                            self.key_to_id.insert(k.clone(), *id);
                        }
                    }
                    match self.id_to_key.get(id) {
                        Some((old, old_ref)) if *old != k => {
                            // "types with different definitions or different generic
                            // arguments never share an id": two identities of the model
                            // behind one id are a violation when their definitions differ
                            if definitions_differ(*old_ref, *t) {
                                fail(mask, "C05", "distinct_types_share_id", || {
                                    format!(
                                        "{} event {}: id {} stands for {:?} and for {:?}, whose definitions differ",
                                        self.name, e, id, old, k
                                    )
                                })?;
                            } else {
                                probe("suppressed.two_model_identities_one_id_same_definition");
                            }
                        }
                        Some(_) => {}
                        None => {
                            self.id_to_key.insert(*id, (k, *t));
                        }
                    }
                }
            }
        }

        // --- C02: positional bisimulation to a fixed point -----------------
        let mut queue: Vec<(MetaType, u32)> = applied.pairs.clone();
        self.held.extend(applied.pairs.iter().copied());
        while let Some((m, id)) = queue.pop() {
            let tid = m.type_id();
            match self.tid_to_id.get(&tid) {
                Some(old) => {
                    if *old != id {
                        let f = || {
                            format!(
                                "{} event {}: one type identity resolved to id {} and to id {}",
                                self.name, e, old, id
                            )
                        };
                        fail(mask, "C02", "relation_not_a_function", f)?;
                        fail(mask, "C05", "identity_has_two_ids", f)?;
                        fail(mask, "C11", "id_of_identity_changed", f)?;
                    }
                    continue;
                }
                None => {
                    self.tid_to_id.insert(tid, id);
                }
            }
            if let Some(other) = self.id_to_tid.get(&id) {
                if *other != tid {
                    fail(mask, "C05", "distinct_identities_share_id", || {
                        format!("{} event {}: two type identities share id {}", self.name, e, id)
                    })?;
                }
            } else {
                self.id_to_tid.insert(id, tid);
            }
            if id as usize >= self.snap.len() {
                let f = || {
                    format!(
                        "{} event {}: id {} handed out but the registry has {} entries",
                        self.name,
                        e,
                        id,
                        self.snap.len()
                    )
                };
                fail(mask, "C02", "id_unresolvable", f)?;
                fail(mask, "C01", "closed.handed_out_id", f)?;
                self.closure_incomplete = true;
                continue;
            }
            let info = m.type_info();
            let mut c = Cmp::default();
            cmp_type(&info, &self.snap[id as usize], &mut c);
            if let Err((clause, detail)) = c.result() {
                fail(mask, "C02", clause, || {
                    format!("{} event {}: id {}: {}", self.name, e, id, detail)
                })?;
            }
            if c.structural {
                self.closure_incomplete = true;
            }
            queue.extend(c.pairs);
        }

        // --- C05.2: exactly one entry per reachable identity ----------------
        if self.closure_incomplete {
            // the set of reachable identities is only known from below
            probe("suppressed.entry_count_unknown_after_structural_mismatch");
            if self.snap.len() < self.tid_to_id.len() {
                fail(mask, "C05", "entry_count", || {
                    format!(
                        "{} event {}: {} entries for at least {} distinct identities reachable from what was registered",
                        self.name,
                        e,
                        self.snap.len(),
                        self.tid_to_id.len()
                    )
                })?;
            }
        } else if self.snap.len() != self.tid_to_id.len() {
            fail(mask, "C05", "entry_count", || {
                format!(
                    "{} event {}: {} entries for {} distinct identities reachable from what was registered",
                    self.name,
                    e,
                    self.snap.len(),
                    self.tid_to_id.len()
                )
            })?;
        }
        // --- C05.3: re-registration leaves the registry unchanged ----------
        if known && n != n0 {
            fail(mask, "C05", "idempotent.grew", || {
                format!(
                    "{} event {}: re-registering {:?} grew the registry from {} to {}",
                    self.name, e, d.req, n0, n
                )
            })?;
        }
        // --- C05.4: each definition evaluated at most once ------------------
        let counters = universe::counters();
        for (l, &c) in counters.iter().enumerate() {
            if c > 1 {
                fail(mask, "C05", "definition_evaluated_twice", || {
                    format!(
                        "{} event {}: type_info() of logical node {} evaluated {} times",
                        self.name, e, l, c
                    )
                })?;
            }
        }
        self.sizes.push(n);
        Ok(())
    }

    /// Consume the registry: publication, with the final checks.
    fn publish(self, mask: Mask) -> Result<Published, Violation> {
        let self_closure_incomplete = self.closure_incomplete;
        let Site { name, reg, psnap, held, tid_to_id, sizes, flags, snap, .. } = self;
        let pr: PortableRegistry = reg.into();
        let p = PReg::from_lib(&pr);
        // the published registry is the last observed state
        if p.types.len() != psnap.len()
            || p.types.iter().zip(&psnap).any(|((_, a), b)| a != b)
        {
            fail(mask, "C11", "publication_differs_from_last_state", || {
                format!("{}: published {} entries, observed {}", name, p.len(), psnap.len())
            })?;
        }
        // C05 on the published registry: still exactly one entry per identity
        let incomplete = self_closure_incomplete;
        if (!incomplete && p.len() != tid_to_id.len()) || p.len() < tid_to_id.len() {
            fail(mask, "C05", "published_entry_count", || {
                format!(
                    "{}: the published registry has {} entries for {}{} distinct identities reachable from what was registered",
                    name,
                    p.len(),
                    if incomplete { "at least " } else { "" },
                    tid_to_id.len()
                )
            })?;
        }
        oracle::check_well_formed(mask, "from_registry", &pr, &p)?;
        // every id handed out resolves, in the final registry, to the
        // definition of the type it was handed out for: from scratch
        let mut visited: BTreeMap<TypeId, u32> = BTreeMap::new();
        let mut queue = held.clone();
        while let Some((m, id)) = queue.pop() {
            let tid = m.type_id();
            if let Some(old) = visited.get(&tid) {
                if *old != id {
                    fail(mask, "C02", "final.relation_not_a_function", || {
                        format!("{}: identity resolved to {} and {}", name, old, id)
                    })?;
                }
                continue;
            }
            visited.insert(tid, id);
            match pr.resolve(id) {
                None => {
                    fail(mask, "C02", "final.id_unresolvable", || {
                        format!("{}: resolve({}) is none", name, id)
                    })?;
                }
                Some(ty) => {
                    let mut c = Cmp::default();
                    cmp_type(&m.type_info(), ty, &mut c);
                    if let Err((clause, detail)) = c.result() {
                        fail(mask, "C02", &format!("final.{}", clause), || {
                            format!("{}: id {}: {}", name, id, detail)
                        })?;
                    }
                    queue.extend(c.pairs);
                }
            }
        }
        Ok(Published { pr, p, tid_to_id, sizes, flags, snap })
    }
}

struct Published {
    pr: PortableRegistry,
    p: PReg,
    tid_to_id: BTreeMap<TypeId, u32>,
    sizes: Vec<usize>,
    flags: u32,
    snap: Vec<Type<PortableForm>>,
}

fn has_cycle(p: &PReg) -> bool {
    // iterative colouring DFS over a well-formed registry
    let n = p.len();
    let adj: Vec<Vec<u32>> = p.types.iter().map(|(_, t)| t.ids()).collect();
    let mut colour = vec![0u8; n];
    for root in 0..n {
        if colour[root] != 0 {
            continue;
        }
        let mut stack: Vec<(usize, usize)> = vec![(root, 0)];
        colour[root] = 1;
        while let Some(&mut (v, ref mut k)) = stack.last_mut() {
            if *k < adj[v].len() {
                let w = adj[v][*k] as usize;
                *k += 1;
                if w >= n {
                    continue;
                }
                if colour[w] == 1 {
                    return true;
                }
                if colour[w] == 0 {
                    colour[w] = 1;
                    stack.push((w, 0));
                }
            } else {
                colour[v] = 2;
                stack.pop();
            }
        }
    }
    false
}

fn reach_probes(p: &PReg) {
    let n = p.len();
    let mut by_param = vec![0u32; n];
    let mut by_other = vec![0u32; n];
    for (_, t) in &p.types {
        let np = t.params.iter().filter(|x| x.1.is_some()).count();
        for (k, id) in t.ids().into_iter().enumerate() {
            if (id as usize) < n {
                if k < np {
                    by_param[id as usize] += 1;
                } else {
                    by_other[id as usize] += 1;
                }
            }
        }
    }
    if (0..n).any(|i| by_param[i] > 0 && by_other[i] == 0) {
        probe("reach.node_referenced_only_through_type_parameter");
    }
    for (_, t) in &p.types {
        probe(match t.kind() {
            "composite" => "kind.composite",
            "variant" => "kind.variant",
            "sequence" => "kind.sequence",
            "array" => "kind.array",
            "tuple" => "kind.tuple",
            "primitive" => "kind.primitive",
            "compact" => "kind.compact",
            _ => "kind.bitsequence",
        });
    }
    probe_max("max.registry_entries", n as u64);
    if n > 256 {
        probe("reach.registry_above_256_entries");
    }
    if n > 1000 {
        probe("reach.registry_above_1000_entries");
    }
}

fn all_props_panic(mask: Mask, engine_props: &[&'static str], msg: String) -> Violation {
    let property = engine_props
        .iter()
        .find(|p| mask.has(p))
        .copied()
        .unwrap_or(engine_props[0]);
    Violation {
        property: property.to_string(),
        clause: core::panic_clause(&msg),
        detail: format!("library code panicked: {}", msg),
        case: None,
    }
}

pub fn perm_array(p: &[u8]) -> [u8; K] {
    let mut a = universe::identity_perm();
    if p.len() == K {
        a.copy_from_slice(p);
    }
    a
}

pub fn execute(scn: &RegScenario, mask: Mask) -> Result<RegResult, Violation> {
    universe::install(scn.nodes.clone(), perm_array(&scn.perm));
    core::log_reset();
    let r = core::catch(|| execute_inner(scn, mask));
    universe::uninstall();
    match r {
        Ok(x) => x,
        // consumer steps catch their own panics; what arrives here unwound out
        // of a registration, which the registration properties answer for
        Err(msg) => match ["C01", "C02", "C05", "C11"].iter().find(|p| mask.has(p)) {
            Some(_) => Err(all_props_panic(mask, &["C01", "C02", "C05", "C11"], msg)),
            None => {
                probe("registration_panicked_under_a_check_that_does_not_answer_for_it");
                Ok(RegResult::default())
            }
        },
    }
}

/// Only build the published registry of a scenario (frame source for wiresim).
pub fn publish_only(scn: &RegScenario) -> Result<PortableRegistry, String> {
    universe::install(scn.nodes.clone(), perm_array(&scn.perm));
    let r = core::catch(|| {
        let mut reg = Registry::new();
        for d in &scn.owner {
            apply(&mut reg, &d.req);
        }
        PortableRegistry::from(reg)
    });
    universe::uninstall();
    r
}

/// Apply a request in the fault-injecting configuration: an injected unwind
/// out of a node's `type_info()` is caught here (the caller of the library
/// catches it and carries on); any other panic propagates.
fn apply_catching_unwind(reg: &mut Registry, req: &Req) -> Option<Vec<u32>> {
    let r = std::panic::catch_unwind(std::panic::AssertUnwindSafe(|| apply(reg, req)));
    universe::arm(false);
    match r {
        Ok(a) => Some(a.pairs.iter().map(|p| p.1).collect()),
        Err(payload) => {
            if payload.is::<universe::InjectedUnwind>() {
                None
            } else {
                std::panic::resume_unwind(payload)
            }
        }
    }
}

/// Nodes a reference mentions directly (the wrapper's own node and, for the
/// two-parameter wrappers, the second one).
fn mentioned_nodes(t: TyRef) -> Vec<u8> {
    if t.w == W::Corpus {
        return vec![];
    }
    let mut v = vec![t.n % K as u8];
    if matches!(t.w, W::Result | W::ResultSwap | W::BTreeMap | W::Tup2 | W::Tup3Ph | W::Tup12 | W::RefTup2 | W::DPair) {
        v.push(universe::second_of(t.n));
    }
    v
}

/// Can the type `t` denotes reach (or is it) one of the `fired` nodes, over the
/// references of the node specifications?
fn reaches_fired(nodes: &[universe::NodeSpec], t: TyRef, fired: &[u8]) -> bool {
    let mut seen = [false; K];
    let mut stack = mentioned_nodes(t);
    while let Some(n) = stack.pop() {
        let n = n as usize % K;
        if seen[n] {
            continue;
        }
        seen[n] = true;
        if fired.contains(&(n as u8)) {
            return true;
        }
        for r in nodes[n].refs() {
            stack.extend(mentioned_nodes(r));
        }
    }
    false
}

/// Fault-injecting configuration of regsim (C11 only): some `type_info()`
/// calls unwind once in the middle of a registration.  The oracle is relaxed
/// deliberately and narrowly: the failed registration may leave an id without
/// a definition (so density, faithfulness and the entry count are not checked
/// in this configuration), but every entry that was ever observed must stay,
/// under the same id, unchanged - in every later state and in the published
/// registry - and replaying the same history with the same faults must give
/// the same bytes.
fn execute_faulted(scn: &RegScenario, mask: Mask) -> Result<RegResult, Violation> {
    let mut res = RegResult {
        scenario_hash: hash_of(scn),
        graph_hash: hash_of(&(&scn.nodes, &scn.perm)),
        order_hash: hash_of(&scn.owner.iter().map(|d| (d.msg, d.dup)).collect::<Vec<_>>()),
        events: scn.owner.len() as u64,
        ..Default::default()
    };
    let mut plan = scn.unwind_nodes.clone();
    plan.sort_unstable();
    plan.dedup();
    universe::reset_counters();
    universe::plan_unwinds(&plan);
    let mut reg = Registry::new();
    let mut seen: BTreeMap<u32, Type<PortableForm>> = BTreeMap::new();
    let mut fired_at: Option<usize> = None;
    let mut key_to_id: BTreeMap<Tx, u32> = BTreeMap::new();
    let mut id_to_key: BTreeMap<u32, (Tx, TyRef)> = BTreeMap::new();
    let mut fired_nodes: Vec<u8> = Vec::new();
    let mut walked: BTreeMap<TypeId, u32> = BTreeMap::new();
    for (e, d) in scn.owner.iter().enumerate() {
        probe("events.delivery");
        let fired_before = universe::unwinds_fired();
        let outcome_ids = apply_catching_unwind(&mut reg, &d.req);
        if universe::unwinds_fired() > fired_before {
            // which planned nodes are gone from the plan: those fired
            for l in &plan {
                if !fired_nodes.contains(l) && !universe::unwind_still_planned(*l) {
                    fired_nodes.push(*l);
                }
            }
        }
        match &outcome_ids {
            None => {
                probe("fault.unwind_in_type_info.fired");
                if fired_at.is_none() {
                    fired_at = Some(e);
                }
                core::log_u64(u64::MAX);
            }
            Some(ids) => {
                for id in ids {
                    core::log_u64(*id as u64);
                }
                if fired_at.is_some() {
                    probe("reach.registration_after_an_unwound_one");
                }
            }
        }
        // C05 clauses that survive an unwound registration on the unchanged
        // tree: an identity keeps one id, distinct identities keep distinct ids,
        // and no definition is evaluated twice (the failed one was evaluated
        // once and stays interned)
        if mask.has("C05") {
            if let Some(ids) = &outcome_ids {
                let refs = d.req.refs();
                if refs.len() == ids.len() && matches!(d.req, Req::Register(_) | Req::RegisterMany(_)) {
                    for (t, id) in refs.iter().zip(ids) {
                        let k = key(&tx(*t));
                        match key_to_id.get(&k) {
                            Some(old) if old != id => {
                                fail(mask, "C05", "fault.alias_ids_differ", || {
                                    format!(
                                        "event {}: {} (identity {:?}) got id {}, that identity had id {} (a registration had unwound at event {:?})",
                                        e, t.show(), k, id, old, fired_at
                                    )
                                })?;
                            }
                            Some(_) => {}
                            None => {
                                key_to_id.insert(k.clone(), *id);
                            }
                        }
                        match id_to_key.get(id) {
                            Some((old, old_ref)) if *old != k => {
                                if definitions_differ(*old_ref, *t) {
                                    fail(mask, "C05", "fault.distinct_types_share_id", || {
                                        format!("event {}: id {} stands for {:?} and for {:?}", e, id, old, k)
                                    })?;
                                }
                            }
                            Some(_) => {}
                            None => {
                                id_to_key.insert(*id, (k, *t));
                            }
                        }
                    }
                }
            }
            for (l, &c) in universe::counters().iter().enumerate() {
                if c > 1 {
                    fail(mask, "C05", "fault.definition_evaluated_twice", || {
                        format!(
                            "event {}: type_info() of logical node {} evaluated {} times (a registration had unwound at event {:?})",
                            e, l, c, fired_at
                        )
                    })?;
                }
            }
        }
        let now: BTreeMap<u32, &Type<PortableForm>> = reg.types().map(|(k, t)| (k.id, t)).collect();
        // An id handed out by a successful registration resolves - unless the
        // type can reach a node whose type_info() unwound (such a type may
        // have been on the stack when the unwind happened and stays interned
        // without a definition: that is the unchanged tree's behaviour).
        if let (Some(ids), Req::Register(_) | Req::RegisterMany(_)) = (&outcome_ids, &d.req) {
            let refs = d.req.refs();
            if refs.len() == ids.len() {
                for (t, id) in refs.iter().zip(ids) {
                    if now.contains_key(id) {
                        continue;
                    }
                    if !reaches_fired(&scn.nodes, *t, &fired_nodes) {
                        fail(mask, "C05", "fault.identity_without_entry", || {
                            format!(
                                "event {}: {} was registered successfully (id {}) but the registry holds no entry for it (unwound earlier: {:?})",
                                e, t.show(), id, fired_nodes
                            )
                        })?;
                        fail(mask, "C11", "fault.handed_out_id_without_definition", || {
                            format!(
                                "event {}: {} got id {} which has no definition, although it cannot reach a node whose type_info() unwound (unwound: {:?})",
                                e, t.show(), id, fired_nodes
                            )
                        })?;
                    }
                }
            }
        }
        // C02 under faults: a type that cannot reach an unwound node, and
        // everything below it, is registered as if nothing had happened - its
        // id resolves to a faithful image of type_info(), to a fixed point
        if mask.has("C02") {
            if let (Some(ids), Req::Register(_) | Req::RegisterMany(_)) = (&outcome_ids, &d.req) {
                let refs = d.req.refs();
                if refs.len() == ids.len() {
                    let mut queue: Vec<(MetaType, u32)> = refs
                        .iter()
                        .zip(ids)
                        .filter(|(t, _)| !reaches_fired(&scn.nodes, **t, &fired_nodes))
                        .map(|(t, id)| (meta(*t), *id))
                        .collect();
                    while let Some((m, id)) = queue.pop() {
                        let tid = m.type_id();
                        if let Some(old) = walked.get(&tid) {
                            if *old != id {
                                fail(mask, "C02", "fault.relation_not_a_function", || {
                                    format!("event {}: one type identity resolved to id {} and to id {}", e, old, id)
                                })?;
                            }
                            continue;
                        }
                        walked.insert(tid, id);
                        match now.get(&id) {
                            None => {
                                fail(mask, "C02", "fault.id_unresolvable", || {
                                    format!(
                                        "event {}: id {} was handed out for a type that cannot reach an unwound node, but has no definition (unwound: {:?})",
                                        e, id, fired_nodes
                                    )
                                })?;
                            }
                            Some(ty) => {
                                let mut c = Cmp::default();
                                cmp_type(&m.type_info(), ty, &mut c);
                                if let Err((clause, detail)) = c.result() {
                                    fail(mask, "C02", &format!("fault.{}", clause), || {
                                        format!("event {}: id {}: {}", e, id, detail)
                                    })?;
                                }
                                queue.extend(c.pairs);
                            }
                        }
                    }
                }
            }
        }
        for (id, old) in &seen {
            match now.get(id) {
                None => {
                    fail(mask, "C11", "fault.prefix.entry_vanished", || {
                        format!("event {}: entry {} existed and is gone", e, id)
                    })?;
                }
                Some(t) if **t != *old => {
                    fail(mask, "C11", "fault.prefix.entry_altered", || {
                        format!(
                            "event {}: entry {} changed from {:?} to {:?} (an earlier registration had unwound at event {:?})",
                            e,
                            id,
                            PType::from_lib(old),
                            PType::from_lib(t),
                            fired_at
                        )
                    })?;
                }
                Some(_) => {}
            }
        }
        let fresh: Vec<(u32, Type<PortableForm>)> =
            now.iter().filter(|(id, _)| !seen.contains_key(id)).map(|(id, t)| (*id, (*t).clone())).collect();
        seen.extend(fresh);
    }
    if universe::unwinds_fired() > 0 {
        res.flags |= F_FAULTED;
    }
    let pr: PortableRegistry = reg.into();
    for (id, old) in &seen {
        match pr.types.iter().find(|t| t.id == *id) {
            Some(t) if t.ty == *old => {}
            _ => {
                fail(mask, "C11", "fault.publication_lost_or_altered_entry", || {
                    format!("entry {} was observed in the registry but is not published unchanged", id)
                })?;
            }
        }
    }
    let bytes = pr.encode();
    core::log_bytes(&bytes);
    // replay with the same faults
    universe::reset_counters();
    universe::plan_unwinds(&plan);
    let mut reg = Registry::new();
    for d in &scn.owner {
        let _ = apply_catching_unwind(&mut reg, &d.req);
    }
    if PortableRegistry::from(reg).encode() != bytes {
        fail(mask, "C11", "fault.replay_not_byte_identical", || {
            "replaying the history with the same injected unwinds gave different bytes".to_string()
        })?;
    }
    universe::plan_unwinds(&[]);
    probe("checks.fault_injecting_configuration");
    res.entries = pr.types.len() as u64;
    if !pr.types.is_empty() {
        res.flags |= F_NONEMPTY;
    }
    if scn.owner.len() >= 2 {
        res.flags |= F_MULTI_EVENT;
    }
    res.log_hash = core::log_value();
    Ok(res)
}

fn execute_inner(scn: &RegScenario, mask: Mask) -> Result<RegResult, Violation> {
    if !scn.unwind_nodes.is_empty() && (mask.has("C11") || mask.has("C05") || mask.has("C02")) {
        return execute_faulted(scn, mask);
    }
    let mut res = RegResult {
        scenario_hash: hash_of(scn),
        graph_hash: hash_of(&(&scn.nodes, &scn.perm)),
        order_hash: hash_of(&scn.owner.iter().map(|d| (d.msg, d.dup)).collect::<Vec<_>>()),
        ..Default::default()
    };

    // ---- owner -------------------------------------------------------------
    let mut owner = Site::new("owner");
    for (e, d) in scn.owner.iter().enumerate() {
        owner.deliver(e, d, mask)?;
        probe("events.delivery");
        if d.dup {
            probe("fault.duplicate_delivery");
        }
    }
    // reordering actually produced by the network
    let mut last = None;
    let mut reordered = 0u64;
    for d in &scn.owner {
        if let Some(l) = last {
            if d.msg < l {
                reordered += 1;
            }
        }
        last = Some(d.msg);
    }
    if reordered > 0 {
        probe_n("fault.reordered_delivery", reordered);
    }
    res.events = scn.owner.len() as u64;
    let a = owner.publish(mask)?;
    res.flags |= a.flags;
    res.entries = a.p.len() as u64;
    if a.p.len() > 0 {
        res.flags |= F_NONEMPTY;
    }
    if scn.owner.len() >= 2 {
        res.flags |= F_MULTI_EVENT;
    }
    if has_cycle(&a.p) {
        res.flags |= F_HAS_CYCLE;
        probe("reach.cycle_in_registry");
    }
    reach_probes(&a.p);
    let bytes_a = a.pr.encode();
    core::log_bytes(&bytes_a);
    let mut h = Fnv::new();
    h.bytes(&bytes_a);
    res.registry_hash = h.finish64();
    for id in a.p.types.iter().map(|x| x.0) {
        probe(match id {
            0..=63 => "compact_class.id.1byte",
            64..=16383 => "compact_class.id.2byte",
            _ => "compact_class.id.4byte",
        });
    }

    // ---- replica: same messages, another order (C11.3) ----------------------
    if mask.has("C11") || mask.has("C05") || mask.has("C02") || mask.has("C01") {
        let mut replica = Site::new("replica");
        for (e, d) in scn.replica.iter().enumerate() {
            replica.deliver(e, d, mask)?;
        }
        let b = replica.publish(mask)?;
        let differs = scn
            .owner
            .iter()
            .zip(&scn.replica)
            .any(|(x, y)| (x.msg, x.dup) != (y.msg, y.dup));
        if differs {
            res.flags |= F_REORDERED;
            probe("reach.replica_order_differs");
        }
        if mask.has("C11") {
            compare_replicas(mask, &a, &b)?;
        }
    }

    // ---- replay (C11.2) ------------------------------------------------------
    if mask.has("C11") {
        let mut reg = Registry::new();
        for d in &scn.owner {
            apply(&mut reg, &d.req);
        }
        let again = PortableRegistry::from(reg).encode();
        if again != bytes_a {
            fail(mask, "C11", "replay_not_byte_identical", || {
                format!("replaying {} deliveries gave different bytes", scn.owner.len())
            })?;
        }
        let cut = (scn.prefix_at as usize).min(scn.owner.len());
        let mut reg = Registry::new();
        for d in &scn.owner[..cut] {
            apply(&mut reg, &d.req);
        }
        let prefix = PortableRegistry::from(reg).encode();
        let n_at = if cut == 0 { 0 } else { a.sizes[cut - 1] };
        let expect = crate::ptype::registry_of(
            a.snap[..n_at.min(a.snap.len())]
                .iter()
                .enumerate()
                .map(|(i, t)| PortableType::new(i as u32, t.clone()))
                .collect(),
        )
        .encode();
        if prefix != expect {
            fail(mask, "C11", "prefix_replay_differs_from_snapshot", || {
                format!("prefix of {} deliveries: {} entries expected", cut, n_at)
            })?;
        }
        probe("checks.replay");
    }

    // ---- consumer chain --------------------------------------------------------
    res.published = Some(a.pr.clone());
    let mut cur = a.pr;
    // the consumer chain concerns the properties about produced registries
    // and consumer steps; under a check of C02, C05 or C11 alone it would only
    // add ways for an unrelated failure to end the process
    let chain_wanted = ["C01", "C07", "C10", "C12", "C14"].iter().any(|p| mask.has(p));
    for (k, step) in scn.chain.iter().enumerate() {
        if !chain_wanted {
            break;
        }
        res.flags |= F_CHAIN;
        // a panic inside a consumer step belongs to the property that speaks
        // about that step; for the others the chain simply ends here
        let responsible: &[&'static str] = match step {
            ChainStep::Retain(_) => &["C10"],
            ChainStep::ScaleRoundTrip => &["C07", "C14"],
            ChainStep::JsonRoundTrip => &["C14"],
            ChainStep::BuilderRebuild => &["C12"],
        };
        let step_result = core::catch(|| -> Check { chain_step(mask, k, step, &mut cur, &mut res) });
        match step_result {
            Ok(r) => r?,
            Err(msg) => {
                for p in responsible {
                    fail(mask, p, &core::panic_clause(&msg), || {
                        format!("consumer step {} ({:?}) panicked: {}", k, step_name(step), msg)
                    })?;
                }
                probe("chain.ended_by_a_panic_another_property_answers_for");
                break;
            }
        }
    }
    core::log_bytes(&cur.encode());
    res.after_chain = Some(cur);
    res.log_hash = core::log_value();
    Ok(res)
}

fn step_name(s: &ChainStep) -> &'static str {
    match s {
        ChainStep::Retain(_) => "retain",
        ChainStep::ScaleRoundTrip => "scale round trip",
        ChainStep::JsonRoundTrip => "json round trip",
        ChainStep::BuilderRebuild => "builder rebuild",
    }
}

fn chain_step(mask: Mask, k: usize, step: &ChainStep, cur_ref: &mut PortableRegistry, res: &mut RegResult) -> Check {
    // work on a copy; commit on success (a step may replace the registry)
    let mut cur = cur_ref.clone();
    {
        match step {
            ChainStep::Retain(keep) => {
                let before = PReg::from_lib(&cur);
                if !before.well_formed() {
                    probe("chain.retain_skipped_ill_formed_input");
                    return Ok(());
                }
                let len = before.len();
                let accepted: Vec<u32> =
                    (0..len as u32).filter(|&id| keep.accepts(id, len)).collect();
                let mut asked = 0u64;
                let map = cur.retain(|id| {
                    asked += 1;
                    keep.accepts(id, len)
                });
                probe("chain.retain");
                let after = PReg::from_lib(&cur);
                core::log_u64(after.len() as u64);
                if mask.has("C10") {
                    oracle::check_retain(mask, &before, &accepted, &after, &map)?;
                }
                oracle::check_well_formed(mask, "retain", &cur, &after)?;
                if map.len() == len && len > 0 {
                    probe("reach.retain_kept_everything");
                } else if map.is_empty() {
                    probe("reach.retain_kept_nothing");
                } else {
                    res.flags |= F_RETAIN_PARTIAL;
                    probe("reach.retain_partial");
                }
                if map.len() > accepted.len() {
                    probe("reach.retain_pulled_in_unaccepted_dependency");
                }
                if has_cycle(&after) && map.len() < len {
                    probe("reach.retain_kept_a_cycle_and_dropped_something");
                }
                let _ = (k, asked);
            }
            ChainStep::ScaleRoundTrip => {
                let bytes = cur.encode();
                let mut input = &bytes[..];
                match PortableRegistry::decode(&mut input) {
                    Ok(dec) => {
                        if !input.is_empty() {
                            fail(mask, "C07", "chain.decode_left_bytes", || {
                                format!("{} bytes left", input.len())
                            })?;
                        }
                        let p = PReg::from_lib(&dec);
                        oracle::check_well_formed(mask, "decode_own_output", &dec, &p)?;
                        if p != PReg::from_lib(&cur) {
                            fail(mask, "C07", "chain.round_trip_not_equal", || {
                                "decode(encode(x)) != x".to_string()
                            })?;
                        }
                        cur = dec;
                    }
                    Err(err) => {
                        // no registry was produced: C07's statement, not C01's
                        fail(mask, "C07", "chain.decode_own_output_failed", || format!("{}", err))?;
                    }
                }
                probe("chain.scale_round_trip");
            }
            ChainStep::JsonRoundTrip => {
                let text = serde_json::to_vec(&cur).expect("serialising a registry cannot fail");
                match serde_json::from_slice::<PortableRegistry>(&text) {
                    Ok(dec) => {
                        let p = PReg::from_lib(&dec);
                        oracle::check_well_formed(mask, "json_own_output", &dec, &p)?;
                        cur = dec;
                    }
                    Err(_) => {
                        // C08 (not claimed) speaks about this; no registry was produced
                        probe("chain.json_own_output_rejected");
                    }
                }
                probe("chain.json_round_trip");
            }
            ChainStep::BuilderRebuild => {
                let before = PReg::from_lib(&cur);
                let distinct: BTreeSet<&PType> = before.types.iter().map(|x| &x.1).collect();
                if distinct.len() != before.len() || !before.well_formed() {
                    probe("chain.builder_rebuild_skipped_equal_entries");
                    return Ok(());
                }
                let mut b = PortableRegistryBuilder::new();
                for t in &cur.types {
                    let announced = b.next_type_id();
                    let id = b.register_type(t.ty.clone());
                    if id != t.id || announced != id {
                        fail(mask, "C12", "rebuild.index", || {
                            format!("entry {} got index {} (announced {})", t.id, id, announced)
                        })?;
                    }
                }
                let out = b.finish();
                let p = PReg::from_lib(&out);
                oracle::check_well_formed(mask, "builder_finish", &out, &p)?;
                if p != before {
                    fail(mask, "C12", "rebuild.finish_lists_values", || {
                        "finish() differs from the registered values".to_string()
                    })?;
                }
                cur = out;
                probe("chain.builder_rebuild");
            }
        }
    }
    *cur_ref = cur;
    Ok(())
}

/// C11.3: owner and replica received the same messages in different orders;
/// their registries must be equal up to a renaming of ids.
fn compare_replicas(mask: Mask, a: &Published, b: &Published) -> Check {
    if a.p.len() != b.p.len() {
        return fail(mask, "C11", "order.entry_count_differs", || {
            format!("owner has {} entries, replica {}", a.p.len(), b.p.len())
        });
    }
    // renaming through the type identities both sides were walked with
    let mut rho: BTreeMap<u32, u32> = BTreeMap::new();
    let mut used: BTreeSet<u32> = BTreeSet::new();
    for (tid, ida) in &a.tid_to_id {
        match b.tid_to_id.get(tid) {
            None => {
                return fail(mask, "C11", "order.identity_missing_in_replica", || {
                    format!("owner id {} has no counterpart", ida)
                })
            }
            Some(idb) => {
                if let Some(prev) = rho.insert(*ida, *idb) {
                    if prev != *idb {
                        return fail(mask, "C11", "order.renaming_not_a_function", || {
                            format!("owner id {} maps to {} and {}", ida, prev, idb)
                        });
                    }
                } else if !used.insert(*idb) {
                    return fail(mask, "C11", "order.renaming_not_injective", || {
                        format!("replica id {} is the image of two owner ids", idb)
                    });
                }
            }
        }
    }
    for (ida, (_, ta)) in a.p.types.iter().enumerate() {
        let Some(&idb) = rho.get(&(ida as u32)) else {
            // an entry no held root reaches: C05's entry count reports that
            continue;
        };
        let mut unmapped = None;
        let renamed = ta.map_ids(&mut |x| match rho.get(&x) {
            Some(y) => *y,
            None => {
                unmapped = Some(x);
                u32::MAX
            }
        });
        if unmapped.is_some() {
            continue;
        }
        match b.p.types.get(idb as usize) {
            Some((_, tb)) if *tb == renamed => {}
            other => {
                return fail(mask, "C11", "order.not_equal_up_to_renaming", || {
                    format!(
                        "owner entry {} renamed is {:?}, replica entry {} is {:?}",
                        ida,
                        renamed,
                        idb,
                        other.map(|x| &x.1)
                    )
                })
            }
        }
    }
    probe("checks.replica_compared");
    Ok(())
}
