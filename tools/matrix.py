#!/usr/bin/env python3
"""Rewrite the catch matrix block of DESIGN.md from mutants/results.json and
seeded/results.json (written by ./selftest)."""
import json, re, os
V='/verif'
def rows(kind):
    res=json.load(open(f'{V}/{kind}/results.json'))
    idx=json.load(open(f'{V}/mutants/index.json')) if kind=='mutants' else {}
    out=[]
    for name in sorted(res):
        r=res[name]
        if 'error' in r: continue
        if kind=='mutants':
            breaks=idx.get(name,{}).get('breaks',[]); what=idx.get(name,{}).get('note','')
        else:
            meta=json.load(open(f'{V}/seeded/{name}/meta.json')); breaks=meta['breaks']
            notes=open(f'{V}/seeded/{name}/notes.md').read()
            what=meta.get('summary','')
        det=r.get('detected_by',{})
        own=', '.join(f"{p} ({det[p]['clause'].split(':')[0].replace(p+' ','')})" for p in breaks if p in det)
        missed=', '.join(r.get('missed_by',[]))
        also=', '.join(sorted(set(f['property'] for f in r.get('false_alarm',[]))))
        rep=all(d.get('replay_reproduces') and d.get('replay_passes_on_unchanged_tree',True) for d in det.values())
        out.append(f"| `{name}` | {what} | {', '.join(breaks)} | {own or '-'} | {missed or '-'} | {also or '-'} | {'yes' if rep and det else '-'} |")
    return out
hdr="| change | what it does | breaks | caught by (first failing clause) | missed by | other checks that also fail | replay reproduces, passes on the unchanged tree |\n|---|---|---|---|---|---|---|"
block="<!-- MATRIX:BEGIN -->\n**Own mutants** (`/verif/mutants/*.patch`)\n\n"+hdr+"\n"+"\n".join(rows('mutants'))+"\n\n**Changes by independent sub-agents** (`/verif/seeded/<id>/`; 1-3 first round, 4-6 second round)\n\n"+hdr+"\n"+"\n".join(rows('seeded'))+"\n<!-- MATRIX:END -->"
p=f'{V}/DESIGN.md'; s=open(p).read()
if '<!-- MATRIX:BEGIN -->' in s:
    s=re.sub(r'<!-- MATRIX:BEGIN -->.*<!-- MATRIX:END -->', lambda m: block, s, flags=re.S)
else:
    s+="\n\n### 11.6 Which checks catch which changes\n\n"+block+"\n"
open(p,'w').write(s)
print('matrix written')
